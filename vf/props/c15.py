"""C15 — MetaModules keep embedded project and user controllers intact at any depth."""
import random

from vf.harness import B, I32, R, U8, U16, U32, Ob, build
from vf.modgen import SETUP as MSETUP

EXPLANATION = (
    "C15: MetaModules are built through the public API (embedded project with modules, user-defined controller count n, mapping table, labels, values taken from the "
    "mapped controllers) with symbolic values, then saved and loaded by the real writer/reader stand-alone (synth), inside a project, and nested inside another MetaModule's "
    "project.  The snapshot (vf/invariants.py) recurses into the embedded project.  REF-DEC checks that exactly 5 + n controller values and the labels of the first n "
    "user-defined controllers are written."
)
BOUNDS = {"quick": {"depth": "1 and 2", "n": "0, 1, 2, 3, 27 (shape)", "mapping targets": "one per controller kind of the embedded Amplifier/Generator/MultiSynth (range, negative-minimum range, compact, enum, bool)",
                    "labels": "<= 2 free code points at index 0 and n-1", "embedded project": "header integers, module controllers, one pattern cell", "stored values": "out-of-range word (depth 1, 2), last two of 96, and n = 4 with an UNASSIGNED slot followed by negative-minimum targets (symbolic raw words, written words decoded by REF-DEC)"},
          "thorough": {"depth": "1, 2, 3", "n": "0..4, 27, 95, 96"}}
OUTSIDE = ["symbolic label text in the in-project and nested contexts (MetaModule.__setattr__ slugifies all labels through third-party code on every attribute assignment; labels are symbolic in the stand-alone context, concrete non-ASCII elsewhere)", "depth > 3", "assigning user-defined controllers through setattr (propagation into the embedded module is behaviour, not persistence)", "more than two labels per module"]
ASSUMPTIONS = ["user-defined values are those the library derives from the mapped controllers (update_user_defined_controllers), as the loader itself does"]

SETUP = MSETUP + '''from vf import refformat as RF
MM = MODULE_CLASSES["MetaModule"]
AMP = MODULE_CLASSES["Amplifier"]
GEN = MODULE_CLASSES["Generator"]
MS = MODULE_CLASSES["MultiSynth"]
G = ("type", "common_synth", "midi", "ctl", "opt", "cmid", "payload")
'''

# (module expr, controller name, index in list(controllers), domain)
TARGETS = [("AMP", "volume", 0, (0, 1024)), ("AMP", "balance", 1, (-128, 128)), ("AMP", "inverse", 3, None), ("GEN", "waveform", 1, None), ("MS", "transpose", 0, (-128, 128)),
           ("AMP", "bipolar_dc_offset", 8, (-16384, 16384)), ("GEN", "panning", 2, (-128, 128))]


def build_mm(n, rnd, var="mm", depth=1, pfx=""):
    """-> (params, lines) constructing a MetaModule `var` with n user-defined controllers"""
    params, lines = [], []
    lines.append(f"{var} = MM()")
    lines.append(f"{var}_a = {var}.project.new_module(AMP)")
    lines.append(f"{var}_g = {var}.project.new_module(GEN)")
    lines.append(f"{var}_s = {var}.project.new_module(MS)")
    params += [R(pfx + "vol", 0, 1024), R(pfx + "bal", -128, 128), R(pfx + "tr", -128, 128), R(pfx + "bdc", -16384, 16384), U32(pfx + "bpm"), U16(pfx + "nv")]
    lines += [f"{var}_a.volume = {pfx}vol", f"{var}_a.balance = {pfx}bal", f"{var}_s.transpose = {pfx}tr", f"{var}_a.bipolar_dc_offset = {pfx}bdc",
              f"{var}_a.inverse = {rnd.choice([True, False])}", f"{var}_g.waveform = GEN.controllers['waveform'].value_type({rnd.choice([0, 1, 2, 3])})",
              f"{var}.project.initial_bpm = {pfx}bpm", f"{var}_a >> {var}.project.output",
              f"{var}_pat = Pattern(lines=1, tracks=1)", f"{var}.project.attach_pattern({var}_pat)", f"{var}_pat.data[0][0].val = {pfx}nv"]
    lines.append(f"{var}.user_defined_controllers = {n}")
    modidx = {"AMP": 1, "GEN": 2, "MS": 3}
    for i in range(n):
        me, cn, ci, dom = TARGETS[i % len(TARGETS)]
        lines.append(f"{var}.mappings.values[{i}] = MM.Mapping(({modidx[me]}, {ci}))")
    if n:
        lines.append(f"{var}.update_user_defined_controllers()")
    return params, lines


def obligations(tier, seed):
    rnd = random.Random(seed)
    obs = []
    ns = [0, 1, 2, 3, 27] if tier == "quick" else [0, 1, 2, 3, 4, 27, 95, 96]
    CP = "(1 <= {v} <= 0xD7FF or 0xE000 <= {v} <= 0x10FFFF)"
    for n in ns:
        for ctx in ("synth", "project"):
            params, lines = build_mm(n, rnd)
            lab = ""
            if n:
                if ctx == "synth":
                    params += [("c1", "int", CP.format(v="c1"))]
                    lines.append("mm.user_defined[0].label = 'L' + chr(c1)")
                else:
                    # attribute assignment on a MetaModule slugifies every label (third-party code that
                    # realises symbolic text), and attaching assigns attributes: concrete label here
                    lines.append("mm.user_defined[0].label = 'L\u00e9\u20ac'")
                if n > 1:
                    lines.append(f"mm.user_defined[{n - 1}].label = 'last'")
            code = "\n".join("    " + l for l in lines)
            if ctx == "synth":
                rtc = "    data = save_bytes(Synth(mm))\n    m2 = load_bytes(data).module\n    ver, d = RF.decode_synth(data)"
            else:
                rtc = "    p = Project()\n    p.attach_module(mm)\n    mm >> p.output\n    data = save_bytes(p)\n    q = load_bytes(data)\n    m2 = q.modules[1]\n    d = RF.decode_project(data)['modules'][1]"
            body = f"""
{code}
    s1 = snap_module(mm, groups=G)
{rtc}
    if not same(s1, snap_module(m2, groups=G)):
        return False
    if m2.user_defined_controllers != {n} or [c.attached(m2) for c in m2.user_defined] != [True] * {n} + [False] * {96 - n}:
        return False
    # written: 5 fixed + n user-defined values, embedded project as CHNM 0, mappings CHNM 1, labels CHNM 8+i
    if len(d['cvals']) != 5 + {n} or d['chnk'] != 104:
        return False
    nums = [c['chnm'] for c in d['chunks']]
    if nums[0] != 0 or 1 not in nums or 2 not in nums:
        return False
    labels = [c for c in d['chunks'] if c['chnm'] >= 8]
    if sorted(c['chnm'] for c in labels) != {sorted({8, 8 + n - 1}) if n else []}:
        return False
    inner = RF.decode_project(d['chunks'][0]['chdt'])
    return len(inner['modules']) == 4 and inner['header']['initial_bpm'] == bpm
"""
            obs.append(Ob(f"rt.{ctx}.n{n}", build(params, body, setup=SETUP), f"MetaModule with {n} user-defined controllers ({ctx}): embedded project, count, labels, mappings and stored values survive; exactly the first {n} user-defined controllers are written and exposed",
                          group="rt", shape=f"{ctx}; embedded project [Output, Amplifier, Generator, MultiSynth] + 1x1 pattern; n={n}; mapping i -> target kind i mod 7",
                          symbolic="embedded controller values (4), embedded bpm, note value" + (", one label code point" if n else ""), timeout=600))
    # stored user-defined values OUTSIDE the mapped controller's range (files written by other versions): the file still loads
    # (lenient mode also after the nested load of the embedded project) and the stored word is what gets saved again
    for depth in (1, 2):
        p_, l_ = build_mm(2, rnd)
        lines = list(l_)
        if depth == 2:
            p_in, l_in = build_mm(1, rnd, var="inner", pfx="i_")
            lines = l_in + lines + ["mm.project.attach_module(inner)"]
            p_ = p_in + p_
        code = "\n".join("    " + l for l in lines)
        body = f"""
{code}
    data = list(save_bytes(Synth(mm)))
    # replace the 6th stored controller value (user-defined #1, mapped to Amplifier.volume 0..1024) by an arbitrary word
    ch = RF.walk(data)
    cv = [i for i, (cid, pl) in enumerate(ch) if cid == b"CVAL"]
    if len(cv) != 7:
        return False
    out = []
    for i, (cid, pl) in enumerate(ch):
        out += RF.ck(cid, RF.u32(w) if i == cv[5] else pl)
    m2 = load_bytes(out).module
    if m2.user_defined_controllers != 2 or m2.get_raw("user_defined_1") != w:
        return False
    m3 = rt(Synth(m2)).module
    return m3.get_raw("user_defined_1") == w and m3.get_raw("user_defined_2") == m2.get_raw("user_defined_2")
"""
        obs.append(Ob(f"stored.outofrange.d{depth}", build(p_ + [R("w", 0, 2**31 - 1)], body, setup=SETUP), f"depth {depth}: a stored user-defined value outside the mapped controller's range loads (also after the nested load) and is preserved by save/load",
                      group="stored", shape=f"synth(MetaModule) depth {depth}, stored word of user-defined #1 replaced in the written stream", symbolic="stored word 0..2^31-1 + embedded values", timeout=600))
    # the boundary count 96: the LAST stored value (CVAL #101) replaced by an arbitrary word must come back as user-defined #96
    p_, l_ = build_mm(96, rnd)
    code = "\n".join("    " + l for l in l_)
    body = f"""
{code}
    data = list(save_bytes(Synth(mm)))
    ch = RF.walk(data)
    cv = [i for i, (cid, pl) in enumerate(ch) if cid == b"CVAL"]
    if len(cv) != 101:
        return False
    out = []
    for i, (cid, pl) in enumerate(ch):
        out += RF.ck(cid, RF.u32(w) if i == cv[100] else (RF.u32(w2) if i == cv[97] else pl))
    m2 = load_bytes(out).module
    # (#96 is mapped onto MultiSynth.transpose and #93 onto Amplifier.balance: ranged targets, so any stored word is loadable)
    return m2.user_defined_controllers == 96 and m2.get_raw("user_defined_96") == w and m2.get_raw("user_defined_93") == w2 and all(c.attached(m2) for c in m2.user_defined)
"""
    obs.append(Ob("stored.last96", build(p_ + [R("w", 0, 2**31 - 1), R("w2", 0, 2**31 - 1)], body, setup=SETUP), "with all 96 user-defined controllers in use the 98th and 101st stored values are decoded into user-defined #93 and #96",
                  group="stored", shape="synth(MetaModule) n=96, last two stored words replaced in the written stream", symbolic="two stored words", timeout=900))
    # an UNASSIGNED user-defined slot among the exposed ones (mapping module 0), followed by slots mapped onto negative-minimum
    # targets: the later slots still adopt their target's range, so their stored words decode to the same values after a load
    for ctx in ("synth", "project"):
        p_, l_ = build_mm(0, rnd)
        lines = list(l_) + ["mm.user_defined_controllers = 4", "mm.mappings.values[0] = MM.Mapping((1, 0))", "mm.mappings.values[2] = MM.Mapping((1, 1))",
                            "mm.mappings.values[3] = MM.Mapping((3, 0))", "mm.update_user_defined_controllers()",
                            "mm.set_raw('user_defined_1', r1)", "mm.set_raw('user_defined_3', r3)", "mm.set_raw('user_defined_4', r4)"]
        code = "\n".join("    " + l for l in lines)
        if ctx == "synth":
            rtc = "data = save_bytes(Synth(mm))\n    m2 = load_bytes(data).module\n    d = RF.decode_synth(data)[1]"
        else:
            rtc = "p = Project()\n    p.attach_module(mm)\n    data = save_bytes(p)\n    m2 = load_bytes(data).modules[1]\n    d = RF.decode_project(data)['modules'][1]"
        body = f"""
{code}
    if (mm.user_defined_1, mm.user_defined_3, mm.user_defined_4) != (r1, r3 - 128, r4 - 128):
        return False
    {rtc}
    # written words (independent decoder): the raw values themselves
    if d['cvals'][5:] != [r1, 0, r3, r4]:
        return False
    if (m2.user_defined_1, m2.user_defined_2, m2.user_defined_3, m2.user_defined_4) != (r1, 0, r3 - 128, r4 - 128):
        return False
    if [m2.get_raw(f"user_defined_{{k}}") for k in (1, 2, 3, 4)] != [r1, 0, r3, r4]:
        return False
    t3 = MM.controllers["user_defined_3"].instance_value_type(m2)
    return (t3.min, t3.max) == (-128, 128) and m2.mappings.values[1].module == 0 and m2.mappings.values[2].controller == 1
"""
        obs.append(Ob(f"stored.gap.{ctx}", build(p_ + [R("r1", 0, 1024), R("r3", 0, 256), R("r4", 0, 256)], body, setup=SETUP),
                      f"an unassigned user-defined slot (#2) followed by slots mapped onto negative-minimum targets ({ctx}): every stored word is written as it is and decodes to the same value after the load (later slots adopt their target's range)",
                      group="stored", shape=f"{ctx}; n=4: #1 -> Amplifier.volume, #2 unassigned, #3 -> Amplifier.balance, #4 -> MultiSynth.transpose", symbolic="three stored words over their targets' raw ranges + embedded values", timeout=600))
    # no label chunks at all (the options chunk is then the LAST module-specific chunk of the MetaModule)
    for ctx in ("synth", "project"):
        p_, l_ = build_mm(3, rnd)
        code = "\n".join("    " + l for l in l_)
        rtc = "m2 = rt(Synth(mm)).module" if ctx == "synth" else "p = Project()\n    p.attach_module(mm)\n    m2 = rt(p).modules[1]"
        body = f"""
{code}
    s1 = snap_module(mm, groups=G)
    {rtc}
    return same(s1, snap_module(m2, groups=G)) and [c.attached(m2) for c in m2.user_defined][:4] == [True, True, True, False] and m2.user_defined[0].label is None
"""
        obs.append(Ob(f"rt.{ctx}.nolabel", build(p_, body, setup=SETUP), f"a MetaModule with 3 user-defined controllers and NO labels ({ctx}): count, attachment, mappings and values survive",
                      group="rt", shape=f"{ctx}; n=3, no label chunks", symbolic="embedded controller values", timeout=600))
    # nesting: a MetaModule inside the embedded project of a MetaModule (depth 2, thorough 3)
    for depth in ((2,) if tier == "quick" else (2, 3)):
        p_in, l_in = build_mm(2, rnd, var="inner", pfx="i_")
        p_out, l_out = build_mm(1, rnd, var="mm", pfx="")
        lines = l_in + l_out + ["mm.project.attach_module(inner)", "inner >> mm.project.output"]
        if depth == 3:
            p3, l3 = build_mm(1, rnd, var="deep", pfx="d_")
            lines = l3 + l_in + ["inner.project.attach_module(deep)"] + l_out + ["mm.project.attach_module(inner)", "inner >> mm.project.output"]
            p_in = p3 + p_in
        code = "\n".join("    " + l for l in lines)
        body = f"""
{code}
    s1 = snap_module(mm, groups=G)
    m2 = rt(Synth(mm)).module
    if not same(s1, snap_module(m2, groups=G)):
        return False
    inner2 = m2.project.modules[4]
    return type(inner2) is MM and inner2.user_defined_controllers == 2 and inner2.project.initial_bpm == i_bpm and m2.clone() is not m2
"""
        obs.append(Ob(f"nested.d{depth}", build(p_in + p_out, body, setup=SETUP), f"MetaModules nested to depth {depth}: every level's embedded project, user-defined controllers and values survive save/load",
                      group="nested", shape=f"depth {depth}", symbolic="embedded controller values and header fields of every level", timeout=900))
    return obs
