#!/usr/bin/env python3
"""Regenerate /verif/MANIFEST.json from the table below (kept in one place so that the manifest
is always valid and the claimed set is explicit)."""
import json
import os

ROOT = "/verif"

TECH_S = "bounded symbolic execution of the real rv code (CrossHair + z3), counterexample replay"
TECH_SF = "bounded symbolic execution (CrossHair + z3) + AST->SMT-LIB QF_BVFP translation decided by z3 and cvc5, counterexample replay"

# property id -> (design_ref, text, level_note, technique)
CLAIMED = {
    "C12": ("DESIGN.md C12",
            "Every obligation is decided by z3 over all values of the stated widths: note encode/decode over the whole note domain, pattern byte images "
            "(every byte symbolic) for the listed shapes, and one (old word, sub-field, new value) obligation per packed sub-field with the old word over "
            "its full 16/32-bit width.  Universal inside those bounds, silent outside (larger patterns).",
            "CrossHair's models of int/bytes/struct, z3, the bit-operation model and stubs of vf/chplug.py (validated on every run), the oracle formulas in vf/props/c12.py",
            TECH_S),
}

TB = "CrossHair 0.0.110 + z3 5.1 (and cvc5 1.4 for Engine F), the stubs and models of vf/chplug.py / vf/prelude.py (validated on every run, listed in every evidence file), the oracles in /verif/vf (invariants.py, refformat.py, spec.py)"
CLAIMED["C01"] = ("DESIGN.md section 3 C01",
    "Real Project.write_to -> real read_sunvox_file with every value of a concrete shape symbolic over its documented width: header fields, names with free code points around "
    "the 32-byte SNAM limit, all 42 module types (controllers, options, MIDI bindings, common and MIDI settings), module slot layouts with empty positions, pattern lists "
    "(patterns, clones, empty) with symbolic cells.  Universal inside each shape; shapes are enumerated from a stated finite family.", TB, TECH_S)
CLAIMED["C02"] = ("DESIGN.md section 3 C02",
    "Every non-Output type through Synth write/read and Module.clone() with symbolic controller values, options, bindings and common settings; array payloads symbolic element-wise; "
    "project-writer vs synth-writer byte equality.  FMX float payload and the empty-synth refusal are concrete side-conditions (listed as such).", TB, TECH_S)
CLAIMED["C03"] = ("DESIGN.md section 3 C03",
    "Bytes from the real writers are parsed completely by an independent decoder written from the documentation and the YAML (never importing rv) and the decoded record is compared with "
    "the object's public state for symbolic values: chunk ids, order, widths, signedness, offset convention, terminators, CVAL/CMID counts, CHNM < CHNK.", TB, TECH_S)
CLAIMED["C04"] = ("DESIGN.md section 3 C04",
    "Streams from the independent reference encoder / re-emitted fixtures with symbolic stored values are loaded by the real reader and compared with the documented decoding; "
    "unknown chunks with symbolic payload at a symbolic position, dropped optional chunks, CVAL lists of other lengths, reordered header chunks, empty module slots are decided differentially.", TB, TECH_S)
CLAIMED["C05"] = ("DESIGN.md section 3 C05",
    "Y = save(load(X)), Y' = save(load(Y)) with X's stored controller words symbolic over all 32-bit values (incl. out of range), option bytes, header ints, notes, links symbolic: Y == Y' as bytes, "
    "purity of save asserted in the same harness; stability for every n follows because save-after-load is a function of the bytes.", TB, TECH_S)
CLAIMED["C06"] = ("DESIGN.md section 3 C06",
    "Fixtures are loaded concretely, attribute groups of the loaded object get symbolic in-domain values, the object is saved and re-loaded: the re-loaded snapshot equals the edited object's and the edit "
    "touched nothing else.  Covers the sampler's envelopes, samples, maps, record fields and effect on the shipped sampler fixture.", TB, TECH_S)
CLAIMED["C07"] = ("DESIGN.md section 3 C07",
    "Bounded histories through the real connect()/>>/<</~ API: concrete prefix enumerated by the driver, last request fully symbolic (source subset, target subset, connect/disconnect, call form); "
    "link-table invariant and edge-set specification asserted after every request.  Exhaustive over the symbolic request inside the stated (M, k); silent beyond.", TB, TECH_S)
CLAIMED["C08"] = ("DESIGN.md section 3 C08",
    "The link states of C07's histories through real save/load (tables equal up to trailing freed slots, invariant on the loaded project) and reference-encoded projects with symbolic SLNK entries "
    "and the SLnK chunk present for all / no / SunVox's choice of modules.", TB, TECH_S)
CLAIMED["C09"] = ("DESIGN.md section 3 C09",
    "One symbolic value over ALL integers per controller kind and type: accept/reject/read-back semantics of every controller (attribute assignment, constructor keyword, lenient mode) "
    "against the ranges, members and defaults of specs/fileformat.yaml.  Defaults and by-name enum assignment are finite concrete side-conditions.", TB, TECH_S)
CLAIMED["C10"] = ("DESIGN.md section 3 C10",
    "Stored-value conversion of every controller over its whole range through the real get_raw/set_raw (left inverse => injective), generic ranges with symbolic bounds, and the pattern-column encoding "
    "translated from the AST of Controller.pattern_value to QF_BVFP (IEEE double, RNE, truncation) and decided by cvc5 and z3 per distinct (min, max).", TB, TECH_SF)
CLAIMED["C11"] = ("DESIGN.md section 3 C11",
    "Options sharing a byte symbolic all at once through the real writer/reader (disjointness decided from the real packing code), REF-DEC against the YAML layout, inversion, exclusivity over three symbolic assignments, "
    "clamping for v over all integers.", TB, TECH_S)
CLAIMED["C12"] = ("DESIGN.md section 3 C12",
    "Note encode/decode over the whole note domain, pattern byte images (every byte symbolic) for the listed shapes, and one (old word, sub-field, new value) obligation per packed sub-field with the old word over "
    "its full 16/32-bit width.", TB, TECH_S)
CLAIMED["C13"] = ("DESIGN.md section 3 C13",
    "Behavioural equivalence with a reference model built from the YAML, for all values: acceptance and stored value of every range controller (v over all integers), placement of the n-th stored value of a "
    "reference-encoded file, decoding of a reference-encoded options record.  Variable-free comparisons (registration, group, flags, tables, defaults) are concrete side-conditions.", TB, TECH_S)
CLAIMED["C14"] = ("DESIGN.md section 3 C14",
    "Bounded operation histories (attach, new_module, +=, re-attach, foreign module/pattern, save/load) from the empty project and from loaded projects with every gap pattern; last operation symbolic; "
    "index coherence, lowest-gap rule, refusals without effect; Note.mod over all 16-bit module numbers.", TB, TECH_S)
CLAIMED["C15"] = ("DESIGN.md section 3 C15",
    "MetaModules built through the API with symbolic embedded values, user-defined controller counts 0/1/2/3/27 (thorough: ..95, 96), mappings onto every controller kind, labels; stand-alone, in a project and nested (depth 2/3); "
    "REF-DEC counts the written controller values and label chunks.", TB, TECH_S)
CLAIMED["C16"] = ("DESIGN.md section 3 C16",
    "Samplers built through the API, one field group symbolic at struct width per obligation (sample slots/data/fields, 7 envelopes, note map, record fields, effect), real save/load plus REF-DEC against the documented "
    "record layouts; reference-encoded pre-envelope legacy instruments with symbolic legacy points.", TB, TECH_S)
CLAIMED["C17"] = ("DESIGN.md section 3 C17",
    "Pairs (A, B) for all 42 types with B fresh / clone (both directions) / loaded from the same bytes: A mutated with symbolic values in every attribute group, B's snapshot and bytes compared before/after; "
    "cross-type pairs sharing a chunk class; two projects and Project.clone().", TB, TECH_S)
CLAIMED["C18"] = ("DESIGN.md section 3 C18",
    "read_sunvox_file on a fault-injecting file with the fault index k symbolic over every read call (exception and truncation modes), initial flag value symbolic, path and file-object inputs, nested loads with their own fault index, "
    "boundary chunk lengths: flag restored and library-opened file closed on every path.", TB, TECH_S)
CLAIMED["C19"] = ("DESIGN.md section 3 C19",
    "set_via_fn / set_via_gen with the failing cell / yield index symbolic (or never) and symbolic previous content: all-or-nothing, exact installation, untouched cells kept, note.pattern is the pattern; two successive edits.", TB, TECH_S)
CLAIMED["C20"] = ("DESIGN.md section 3 C20",
    "MultiCtl.macro under CrossHair (creation, linking, refusals, unmapped links) and convert_value translated from its AST to QF_BVFP: post-curve stage decided stage-wise for every u in 0..32768 per concrete tuple, "
    "gain+curve stage per (gain, curve, bucket) incl. the bucket boundary; composition by interval arithmetic stated in the evidence.", TB, TECH_SF)

PENDING_REASON = "no check is registered for this property yet (machinery under construction in this round); nothing is claimed"
NOT_APPLICABLE = {}


def main():
    props = [json.loads(l) for l in open(os.path.join(ROOT, "properties.jsonl"))]
    checks = []
    na = []
    for p in props:
        pid = p["id"]
        if pid in CLAIMED:
            ref, text, note, tech = CLAIMED[pid]
            checks.append({
                "property_id": pid,
                "quick_cmd": f"./check {pid} --tier quick",
                "thorough_cmd": f"./check {pid} --tier thorough",
                "evidence_file": f"/verif/evidence/{pid}.json",
                "replay_cmd_template": f"./check {pid} --replay {{path}}",
                "engine": "S+F" if "SMT-LIB" in tech else "S",
                "level_claimed": {"category": "other", "text": text, "design_ref": ref},
                "level_note": note,
                "technique": tech,
            })
        else:
            na.append({"property_id": pid, "reason": NOT_APPLICABLE.get(pid, PENDING_REASON)})
    man = {
        "version": 1,
        "setup_cmd": "./setup.sh",
        "hooks": {
            "guard": "METRASYNTH_RADIANT_VOICES_VERIF",
            "enable": "no source hooks are needed: every stub is injected from the harness process (vf/prelude.py, vf/chplug.py); ./check exports METRASYNTH_RADIANT_VOICES_VERIF=1 for uniformity",
            "baseline_off_cmd": "cd /repo && /venv/bin/python -m pytest -ra -q -p no:cacheprovider --timeout=900 --continue-on-collection-errors",
            "source_commits": [],
            "add_only": True,
        },
        "engines": [
            {"name": "S", "path": "vf/driver.py vf/worker.py vf/prelude.py vf/chplug.py vf/symio.py vf/harness.py vf/props/",
             "serves_properties": sorted(CLAIMED),
             "kind_free_text": "symbolic execution of the real rv functions from /repo's working tree (CrossHair 0.0.110 + z3 5.1): one generated harness per obligation; "
                               "discharged = 'Confirmed over all paths' and the reachability twin violated; counterexamples are replayed on the unpatched library before VIOLATION"},
            {"name": "F", "path": "vf/fpengine.py", "serves_properties": [p for p in ("C10", "C20") if p in CLAIMED],
             "kind_free_text": "AST -> SMT-LIB2 (QF_BVFP) translation of the float kernels, decided by z3 and cvc5, translator validated against the real function on every run"},
        ],
        "checks": checks,
        "notes": "./check exit codes: 0 held on everything explored (known findings printed as KNOWN-FINDING), 1 VIOLATION (replay-confirmed, not listed), "
                 "2 an obligation was inconclusive, 3 harness error.  Known findings: /verif/known_findings.json.  Design: /verif/DESIGN.md.",
        "not_applicable": na,
    }
    json.dump(man, open(os.path.join(ROOT, "MANIFEST.json"), "w"), indent=1)
    print("claimed:", sorted(CLAIMED), "not claimed:", [x["property_id"] for x in na])


if __name__ == "__main__":
    main()
