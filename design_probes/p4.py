import rv.api
from rv.api import Project, read_sunvox_file, m
from symio import PyFile

def amp_rt(volume: int, balance: int, dc: int, inv: bool, sw: int, fv: int, gain: int, bdc: int, x: int, y: int, fin: int) -> bool:
    """
    pre: 0 <= volume <= 1024 and -128 <= balance <= 128 and -128 <= dc <= 128 and 0 <= sw <= 256 and 0<=fv<=32768 and 0<=gain<=5000 and -16384<=bdc<=16384
    pre: -2**31 <= x < 2**31 and -2**31 <= y < 2**31 and -2**31 <= fin < 2**31
    post: _
    """
    p = Project()
    a = p.new_module(m.Amplifier, volume=volume, balance=balance, dc_offset=dc, inverse=inv, stereo_width=sw, fine_volume=fv, gain=gain, bipolar_dc_offset=bdc, x=x, y=y, finetune=fin)
    a >> p.output
    f = PyFile()
    p.write_to(f)
    f.seek(0)
    q = read_sunvox_file(f)
    b = q.modules[1]
    return (b.volume == volume and b.balance == balance and b.dc_offset == dc and b.inverse == inv and b.stereo_width == sw
        and b.fine_volume == fv and b.gain == gain and b.bipolar_dc_offset == bdc and b.x == x and b.y == y and b.mod_finetune == fin
        and q.modules[0].in_links == [1] and b.out_links == [0])

def filt_rt(mode: int, typ: int, freq: int) -> bool:
    """
    pre: 0 <= typ <= 3 and 0 <= mode <= 3 and 0 <= freq <= 14000
    post: _
    """
    p = Project()
    a = p.new_module(m.Filter, type=m.Filter.Type(typ), freq=freq, mode=m.Filter.Mode(mode))
    f = PyFile()
    p.write_to(f)
    f.seek(0)
    q = read_sunvox_file(f)
    b = q.modules[1]
    return b.type == a.type and b.freq == freq and b.mode == a.mode and b.type.value == typ
