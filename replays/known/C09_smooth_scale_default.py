#!/venv/bin/python
# Replay of a solver counterexample against the real library: no CrossHair, no stubs, real io.BytesIO.
# property C09  obligation defaults.Smooth
# a fresh Smooth reports the YAML default for every controller
# exit 1 = the property fails for this input on the current /repo tree; exit 0 = it holds.
import os, sys
os.environ["VF_REPLAY"] = "1"
sys.path.insert(0, "/verif")
ARGS = ()
KWARGS = {}
HARNESS = 'from vf.prelude import *\nfrom rv.modules import MODULE_CLASSES\nfrom rv.errors import ControllerValueError, override_raise_controller_value_errors\nCLS = MODULE_CLASSES[\'Smooth\']\n\nRANGES = [(\'rise\', 0, 32768, 5000), (\'fall\', 0, 32768, 5000), (\'scale\', 0, 400, 100)]\nENUMS = [(\'mode\', 0), (\'channels\', 0)]\nBOOLS = [(\'fall_eq_rise\', False)]\nDEPS = []\n\n\ndef h():\n    mod = CLS()\n    ok = True\n    for name, lo, hi, dflt in RANGES:\n        if getattr(mod, name) != dflt:\n            print("default of", name, "is", getattr(mod, name), "spec says", dflt)\n            ok = False\n    for name, dflt in ENUMS:\n        if getattr(mod, name).value != dflt:\n            print("default of", name, "is", getattr(mod, name), "spec says", dflt)\n            ok = False\n    for name, dflt in BOOLS + DEPS:\n        if getattr(mod, name) != dflt:\n            print("default of", name, "is", getattr(mod, name), "spec says", dflt)\n            ok = False\n    return ok\n'
ns = {"__name__": "vf_replay"}
exec(compile(HARNESS, "<harness defaults.Smooth>", "exec"), ns)
try:
    ok = ns['h'](*ARGS, **KWARGS)
except Exception as e:
    import traceback; traceback.print_exc()
    print("replay: raised", type(e).__name__, e)
    sys.exit(1)
print("replay: h(*%r, **%r) returned %r" % (ARGS, KWARGS, ok))
sys.exit(0 if ok else 1)
