#!/venv/bin/python
# Replay of a solver counterexample against the real library: no CrossHair, no stubs, real io.BytesIO.
# property C09  obligation range.stale.FFT.feedback
# FFT, controllers ['feedback', 'noise_reduction', 'phase_gain', 'all_pass_filter', 'frequency_spread', 'random_phase']: whatever integer w the module already stores (leniently stored values may be out of range), a strict assignment of v is accepted iff min <= v <= max, otherwise ControllerValueError and the stored value remains
# exit 1 = the property fails for this input on the current /repo tree; exit 0 = it holds.
import os, sys
os.environ["VF_REPLAY"] = "1"
sys.path.insert(0, "/verif")
ARGS = (-1, -1)
KWARGS = {}
HARNESS = 'from vf.prelude import *\nfrom rv.modules import MODULE_CLASSES\nfrom rv.errors import ControllerValueError, override_raise_controller_value_errors\nCLS = MODULE_CLASSES[\'FFT\']\n\n\ndef h(w: int, v: int) -> bool:\n    """\n    post: _\n    """\n    mod = CLS()\n    with override_raise_controller_value_errors(False):\n        mod.feedback = w\n    before = mod.feedback\n    try:\n        mod.feedback = v\n    except ControllerValueError:\n        if 0 <= v <= 32768 or mod.feedback != before:\n            return False\n    else:\n        if not (0 <= v <= 32768) or mod.feedback != v:\n            return False\n    with override_raise_controller_value_errors(False):\n        mod.noise_reduction = w\n    before = mod.noise_reduction\n    try:\n        mod.noise_reduction = v\n    except ControllerValueError:\n        if 0 <= v <= 32768 or mod.noise_reduction != before:\n            return False\n    else:\n        if not (0 <= v <= 32768) or mod.noise_reduction != v:\n            return False\n    with override_raise_controller_value_errors(False):\n        mod.phase_gain = w\n    before = mod.phase_gain\n    try:\n        mod.phase_gain = v\n    except ControllerValueError:\n        if 0 <= v <= 32768 or mod.phase_gain != before:\n            return False\n    else:\n        if not (0 <= v <= 32768) or mod.phase_gain != v:\n            return False\n    with override_raise_controller_value_errors(False):\n        mod.all_pass_filter = w\n    before = mod.all_pass_filter\n    try:\n        mod.all_pass_filter = v\n    except ControllerValueError:\n        if 0 <= v <= 32768 or mod.all_pass_filter != before:\n            return False\n    else:\n        if not (0 <= v <= 32768) or mod.all_pass_filter != v:\n            return False\n    with override_raise_controller_value_errors(False):\n        mod.frequency_spread = w\n    before = mod.frequency_spread\n    try:\n        mod.frequency_spread = v\n    except ControllerValueError:\n        if 0 <= v <= 32768 or mod.frequency_spread != before:\n            return False\n    else:\n        if not (0 <= v <= 32768) or mod.frequency_spread != v:\n            return False\n    with override_raise_controller_value_errors(False):\n        mod.random_phase = w\n    before = mod.random_phase\n    try:\n        mod.random_phase = v\n    except ControllerValueError:\n        if 0 <= v <= 32768 or mod.random_phase != before:\n            return False\n    else:\n        if not (0 <= v <= 32768) or mod.random_phase != v:\n            return False\n    return True\n\n\ndef h__reach(w: int, v: int) -> bool:\n    """\n    post: _\n    """\n    h(w, v)\n    return False\n'
ns = {"__name__": "vf_replay"}
exec(compile(HARNESS, "<harness range.stale.FFT.feedback>", "exec"), ns)
try:
    ok = ns['h'](*ARGS, **KWARGS)
except Exception as e:
    import traceback; traceback.print_exc()
    print("replay: raised", type(e).__name__, e)
    sys.exit(1)
print("replay: h(*%r, **%r) returned %r" % (ARGS, KWARGS, ok))
sys.exit(0 if ok else 1)
