#!/venv/bin/python
# Replay of a solver counterexample against the real library: no CrossHair, no stubs, real io.BytesIO.
# property C02  obligation payload.synth.SpectraVoice.harmonic_freqs
# SpectraVoice.harmonic_freqs (16 elements) survives synth round trip element by element
# exit 1 = the property fails for this input on the current /repo tree; exit 0 = it holds.
import os, sys
os.environ["VF_REPLAY"] = "1"
sys.path.insert(0, "/verif")
ARGS = (0, 0, 0, 0, 0, 0, 0, 0, 1, 0, 0, 0, 0, 0, 0, 0, 0)
KWARGS = {}
HARNESS = 'from vf.prelude import *\nfrom rv.modules import MODULE_CLASSES\nfrom vf.invariants import *\n\n\ndef h(e0: int, e1: int, e2: int, e3: int, e4: int, e5: int, e6: int, e7: int, e8: int, e9: int, e10: int, e11: int, e12: int, e13: int, e14: int, e15: int, again: int) -> bool:\n    """\n    pre: (0 <= e0 <= 65535) and (0 <= e1 <= 65535) and (0 <= e2 <= 65535) and (0 <= e3 <= 65535) and (0 <= e4 <= 65535) and (0 <= e5 <= 65535)\n    pre: (0 <= e6 <= 65535) and (0 <= e7 <= 65535) and (0 <= e8 <= 65535) and (0 <= e9 <= 65535) and (0 <= e10 <= 65535) and (0 <= e11 <= 65535)\n    pre: (0 <= e12 <= 65535) and (0 <= e13 <= 65535) and (0 <= e14 <= 65535) and (0 <= e15 <= 65535) and (0 <= again <= 65535)\n    post: _\n    """\n    mod = MODULE_CLASSES[\'SpectraVoice\']()\n    mod.harmonic_freqs.values[0] = e0\n    mod.harmonic_freqs.values[1] = e1\n    mod.harmonic_freqs.values[2] = e2\n    mod.harmonic_freqs.values[3] = e3\n    mod.harmonic_freqs.values[4] = e4\n    mod.harmonic_freqs.values[5] = e5\n    mod.harmonic_freqs.values[6] = e6\n    mod.harmonic_freqs.values[7] = e7\n    mod.harmonic_freqs.values[8] = e8\n    mod.harmonic_freqs.values[9] = e9\n    mod.harmonic_freqs.values[10] = e10\n    mod.harmonic_freqs.values[11] = e11\n    mod.harmonic_freqs.values[12] = e12\n    mod.harmonic_freqs.values[13] = e13\n    mod.harmonic_freqs.values[14] = e14\n    mod.harmonic_freqs.values[15] = e15\n    s1 = snap_module(mod, groups=("type", "payload"))\n    m2 = rt(Synth(mod)).module\n    if not same(s1, snap_module(m2, groups=("type", "payload"))):\n        return False\n    # the module has been serialised once; an in-place edit afterwards must be what the next save writes\n    mod.harmonic_freqs.values[8] = again\n    s3 = snap_module(mod, groups=("type", "payload"))\n    m4 = rt(Synth(mod)).module\n    return same(s3, snap_module(m4, groups=("type", "payload"))) and m4.harmonic_freqs.values[8] == again\n\n\ndef h__reach(e0: int, e1: int, e2: int, e3: int, e4: int, e5: int, e6: int, e7: int, e8: int, e9: int, e10: int, e11: int, e12: int, e13: int, e14: int, e15: int, again: int) -> bool:\n    """\n    pre: (0 <= e0 <= 65535) and (0 <= e1 <= 65535) and (0 <= e2 <= 65535) and (0 <= e3 <= 65535) and (0 <= e4 <= 65535) and (0 <= e5 <= 65535)\n    pre: (0 <= e6 <= 65535) and (0 <= e7 <= 65535) and (0 <= e8 <= 65535) and (0 <= e9 <= 65535) and (0 <= e10 <= 65535) and (0 <= e11 <= 65535)\n    pre: (0 <= e12 <= 65535) and (0 <= e13 <= 65535) and (0 <= e14 <= 65535) and (0 <= e15 <= 65535) and (0 <= again <= 65535)\n    post: _\n    """\n    h(e0, e1, e2, e3, e4, e5, e6, e7, e8, e9, e10, e11, e12, e13, e14, e15, again)\n    return False\n'
ns = {"__name__": "vf_replay"}
exec(compile(HARNESS, "<harness payload.synth.SpectraVoice.harmonic_freqs>", "exec"), ns)
try:
    ok = ns['h'](*ARGS, **KWARGS)
except Exception as e:
    import traceback; traceback.print_exc()
    print("replay: raised", type(e).__name__, e)
    sys.exit(1)
print("replay: h(*%r, **%r) returned %r" % (ARGS, KWARGS, ok))
sys.exit(0 if ok else 1)
