#!/venv/bin/python
# Replay of a solver counterexample against the real library: no CrossHair, no stubs, real io.BytesIO.
# property C09  obligation range.stale.GPIO.out_pin
# GPIO, controllers ['out_pin', 'out_threshold', 'in_pin', 'in_note', 'in_amplitude']: whatever integer w the module already stores (leniently stored values may be out of range), a strict assignment of v is accepted iff min <= v <= max, otherwise ControllerValueError and the stored value remains
# exit 1 = the property fails for this input on the current /repo tree; exit 0 = it holds.
import os, sys
os.environ["VF_REPLAY"] = "1"
sys.path.insert(0, "/verif")
ARGS = (-1, -1)
KWARGS = {}
HARNESS = 'from vf.prelude import *\nfrom rv.modules import MODULE_CLASSES\nfrom rv.errors import ControllerValueError, override_raise_controller_value_errors\nCLS = MODULE_CLASSES[\'GPIO\']\n\n\ndef h(w: int, v: int) -> bool:\n    """\n    post: _\n    """\n    mod = CLS()\n    with override_raise_controller_value_errors(False):\n        mod.out_pin = w\n    before = mod.out_pin\n    try:\n        mod.out_pin = v\n    except ControllerValueError:\n        if 0 <= v <= 256 or mod.out_pin != before:\n            return False\n    else:\n        if not (0 <= v <= 256) or mod.out_pin != v:\n            return False\n    with override_raise_controller_value_errors(False):\n        mod.out_threshold = w\n    before = mod.out_threshold\n    try:\n        mod.out_threshold = v\n    except ControllerValueError:\n        if 0 <= v <= 100 or mod.out_threshold != before:\n            return False\n    else:\n        if not (0 <= v <= 100) or mod.out_threshold != v:\n            return False\n    with override_raise_controller_value_errors(False):\n        mod.in_pin = w\n    before = mod.in_pin\n    try:\n        mod.in_pin = v\n    except ControllerValueError:\n        if 0 <= v <= 256 or mod.in_pin != before:\n            return False\n    else:\n        if not (0 <= v <= 256) or mod.in_pin != v:\n            return False\n    with override_raise_controller_value_errors(False):\n        mod.in_note = w\n    before = mod.in_note\n    try:\n        mod.in_note = v\n    except ControllerValueError:\n        if 0 <= v <= 128 or mod.in_note != before:\n            return False\n    else:\n        if not (0 <= v <= 128) or mod.in_note != v:\n            return False\n    with override_raise_controller_value_errors(False):\n        mod.in_amplitude = w\n    before = mod.in_amplitude\n    try:\n        mod.in_amplitude = v\n    except ControllerValueError:\n        if 0 <= v <= 100 or mod.in_amplitude != before:\n            return False\n    else:\n        if not (0 <= v <= 100) or mod.in_amplitude != v:\n            return False\n    return True\n\n\ndef h__reach(w: int, v: int) -> bool:\n    """\n    post: _\n    """\n    h(w, v)\n    return False\n'
ns = {"__name__": "vf_replay"}
exec(compile(HARNESS, "<harness range.stale.GPIO.out_pin>", "exec"), ns)
try:
    ok = ns['h'](*ARGS, **KWARGS)
except Exception as e:
    import traceback; traceback.print_exc()
    print("replay: raised", type(e).__name__, e)
    sys.exit(1)
print("replay: h(*%r, **%r) returned %r" % (ARGS, KWARGS, ok))
sys.exit(0 if ok else 1)
