import rv.api
from rv.note import Note, NOTECMD
from rv.controller import Range, CompactRange, NoOffsetRange

def note_rt(note: int, vel: int, module: int, ctl: int, val: int) -> bool:
    """
    pre: 0 <= note <= 255 and 0 <= vel <= 129 and 0 <= module <= 0xFFFF and 0 <= ctl <= 0xFFFF and 0 <= val <= 0xFFFF
    pre: note <= 120 or 128 <= note <= 134 or note == 140
    post: _
    """
    n = Note(note=NOTECMD(note), vel=vel, module=module, ctl=ctl, val=val)
    raw = n.raw_data
    m = Note()
    m.raw_data = raw
    return len(raw) == 8 and m.note == n.note and m.vel == vel and m.module == module and m.ctl == ctl and m.val == val

def range_rt(mn: int, mx: int, v: int) -> bool:
    """
    pre: mn <= v <= mx
    post: _
    """
    r = Range(mn, mx)
    raw = r.to_raw_value(v)
    return r.from_raw_value(raw) == v and raw >= 0 and (raw == v - mn if mn < 0 else raw == v)

def ctl_setter(ctl: int, c: int) -> bool:
    """
    pre: 0 <= ctl <= 0xFFFF and 0 <= c <= 255
    post: _
    """
    n = Note(ctl=ctl)
    eff = n.effect
    n.controller = c
    return n.controller == c and n.effect == eff
