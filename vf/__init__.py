"""Solver-based checking of radiant-voices (rv): see /verif/DESIGN.md."""
