#!/venv/bin/python
# Replay of a solver counterexample against the real library: no CrossHair, no stubs, real io.BytesIO.
# property C02  obligation payload.synth.Generator.drawn_waveform
# Generator drawn waveform (32 x int8) survives
# exit 1 = the property fails for this input on the current /repo tree; exit 0 = it holds.
import os, sys
os.environ["VF_REPLAY"] = "1"
sys.path.insert(0, "/verif")
ARGS = (1, 0, -128)
KWARGS = {}
HARNESS = 'from vf.prelude import *\nfrom rv.modules import MODULE_CLASSES\nfrom vf.invariants import *\n\n\ndef h(w0: int, w8: int, w18: int) -> bool:\n    """\n    pre: (-128 <= w0 <= 127) and (-128 <= w8 <= 127) and (-128 <= w18 <= 127)\n    post: _\n    """\n    mod = MODULE_CLASSES[\'Generator\']()\n    mod.drawn_waveform.samples[0] = w0\n    mod.drawn_waveform.samples[8] = w8\n    mod.drawn_waveform.samples[18] = w18\n    mod.drawn_waveform.samples[2] = 78\n    mod.drawn_waveform.samples[30] = 0\n    mod.drawn_waveform.samples[6] = 78\n    mod.drawn_waveform.samples[20] = -11\n    mod.drawn_waveform.samples[10] = -28\n    mod.drawn_waveform.samples[12] = 41\n    s1 = snap_module(mod, groups=("type", "payload"))\n    m2 = rt(Synth(mod)).module\n    return same(s1, snap_module(m2, groups=("type", "payload")))\n\n\ndef h__reach(w0: int, w8: int, w18: int) -> bool:\n    """\n    pre: (-128 <= w0 <= 127) and (-128 <= w8 <= 127) and (-128 <= w18 <= 127)\n    post: _\n    """\n    h(w0, w8, w18)\n    return False\n'
ns = {"__name__": "vf_replay"}
exec(compile(HARNESS, "<harness payload.synth.Generator.drawn_waveform>", "exec"), ns)
try:
    ok = ns['h'](*ARGS, **KWARGS)
except Exception as e:
    import traceback; traceback.print_exc()
    print("replay: raised", type(e).__name__, e)
    sys.exit(1)
print("replay: h(*%r, **%r) returned %r" % (ARGS, KWARGS, ok))
sys.exit(0 if ok else 1)
