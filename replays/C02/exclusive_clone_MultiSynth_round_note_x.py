#!/venv/bin/python
# Replay of a solver counterexample against the real library: no CrossHair, no stubs, real io.BytesIO.
# property C02  obligation exclusive.clone.MultiSynth.round_note_x
# MultiSynth: every state of the mutually exclusive options round_note_x / round_pitch_y reachable by two assignments (the state depends on the last assignment to each member only) survives the clone round trip with all other settings
# exit 1 = the property fails for this input on the current /repo tree; exit 0 = it holds.
import os, sys
os.environ["VF_REPLAY"] = "1"
sys.path.insert(0, "/verif")
ARGS = (False, False, True, True)
KWARGS = {}
HARNESS = 'from vf.prelude import *\nfrom rv.modules import MODULE_CLASSES\nfrom vf.invariants import *\n\n\ndef h(w1: bool, x1: bool, w2: bool, x2: bool) -> bool:\n    """\n    post: _\n    """\n    mod = MODULE_CLASSES[\'MultiSynth\']()\n    for which, val in ((w1, x1), (w2, x2)):\n        if which:\n            mod.round_note_x = val\n        else:\n            mod.round_pitch_y = val\n    s1 = snap_module(mod, groups=("type", "common_synth", "midi", "ctl", "opt", "cmid", "payload"))\n    m2 = mod.clone()\n    return same(s1, snap_module(m2, groups=("type", "common_synth", "midi", "ctl", "opt", "cmid", "payload"))) and m2.round_note_x == mod.round_note_x and m2.round_pitch_y == mod.round_pitch_y\n\n\ndef h__reach(w1: bool, x1: bool, w2: bool, x2: bool) -> bool:\n    """\n    post: _\n    """\n    h(w1, x1, w2, x2)\n    return False\n'
ns = {"__name__": "vf_replay"}
exec(compile(HARNESS, "<harness exclusive.clone.MultiSynth.round_note_x>", "exec"), ns)
try:
    ok = ns['h'](*ARGS, **KWARGS)
except Exception as e:
    import traceback; traceback.print_exc()
    print("replay: raised", type(e).__name__, e)
    sys.exit(1)
print("replay: h(*%r, **%r) returned %r" % (ARGS, KWARGS, ok))
sys.exit(0 if ok else 1)
