"""CrossHair plug-in used by every harness process.

1. bit-vector model for `|` and `^` when an operand is a symbolic int (stock CrossHair
   realises the operands, i.e. pins them to one concrete value, which makes exhaustive
   confirmation of the packing code impossible);
2. `str.format` returns a placeholder for the two range-error templates
   ("... is not within ..."): formatting realises symbolic ints and the message text is not
   the subject of any property.
Both are part of the trusted base and are listed in every evidence file."""
import operator as ops
from numbers import Integral

import crosshair.core_and_libs  # noqa: F401  (stock registrations first, ours override)
import z3
from crosshair import core as _core
from crosshair.libimpl import builtinslib as bl
from crosshair.statespace import context_statespace
from crosshair.tracers import NoTracing

def _bits(space, v, width):
    """fresh 0/1 integer variables b_i with v == sum 2^i b_i (cached per path and term)"""
    cache = getattr(space, "_vf_bits", None)
    if cache is None:
        try:
            cache = space._vf_bits = {}
        except AttributeError:
            cache = {}
    key = (v.get_id(), width)
    if key in cache:
        return cache[key][1]
    u = space.uniq()
    bits = [z3.Int("bit%s_%d" % (u, i)) for i in range(width)]
    space.add(z3.And([z3.And(b >= 0, b <= 1) for b in bits]))
    space.add(v == z3.Sum([bits[i] * (2**i) for i in range(width)]))
    cache[key] = (v, bits)  # v kept alive so its id cannot be reused
    return bits


def model_bitop(space, op, av, bv, width, signed):
    """Integer-arithmetic model of av|bv / av^bv (z3 Int terms) for operands inside the
    given width: bit decomposition with fresh 0/1 integers, linear arithmetic only.
    Signed operands are shifted by 2^(w-1) (excess representation): the low w-1 digits equal
    the two's-complement digits and the top digit is the inverted sign bit."""
    if signed:
        av, bv = av + 2 ** (width - 1), bv + 2 ** (width - 1)
    ab = _bits(space, av, width)
    bb = _bits(space, bv, width)
    terms = []
    for i in range(width):
        top = signed and i == width - 1
        if op is ops.or_:
            # inverted sign bits: stored(a|b) = stored(a) * stored(b)
            bit = z3.If(ab[i] + bb[i] == 2, 1, 0) if top else z3.If(ab[i] + bb[i] >= 1, 1, 0)
        elif op is ops.and_:
            # inverted sign bits: stored(a&b) = stored(a) or stored(b)
            bit = z3.If(ab[i] + bb[i] >= 1, 1, 0) if top else z3.If(ab[i] + bb[i] == 2, 1, 0)
        else:
            bit = z3.If(ab[i] + bb[i] == 1, 0, 1) if top else z3.If(ab[i] + bb[i] == 1, 1, 0)
        terms.append(bit * (2**i))
    r = z3.Int("bitop" + space.uniq())
    space.add(r == z3.Sum(terms) - (2 ** (width - 1) if signed else 0))
    return r


def _pow2_factor(t):
    """largest s such that the Int term t is syntactically a multiple of 2^s (0 if unknown)"""
    INF = 1 << 20
    if z3.is_int_value(t):
        v = t.as_long()
        return INF if v == 0 else ((v & -v).bit_length() - 1)
    if z3.is_mul(t):
        return min(INF, sum(_pow2_factor(c) if z3.is_int_value(c) else 0 for c in t.children()))
    if z3.is_add(t) or z3.is_sub(t):
        return min(_pow2_factor(c) for c in t.children())
    return 0


def _disjoint_sum(space, av, bv):
    """a|b == a^b == a+b when the operands have no common 1-bit.  Tested (never assumed) in the
    form: y's 1-bits lie in [s, s+k) -- s read off y's syntax, k the smallest of a few widths
    with y < 2^(s+k) *proved* by the solver -- and x has zeros there, also proved."""
    for x, y in ((av, bv), (bv, av)):
        s = _pow2_factor(y)
        if s >= 64:
            continue
        try:
            if space.is_possible(z3.Or(x < 0, y < 0)):
                return None
            for k in (1, 2, 3, 4, 8, 16, 32):
                if s + k > 64:
                    break
                if not space.is_possible(y >= 2 ** (s + k)):
                    if not space.is_possible(((x / (2**s)) % (2**k)) != 0):
                        return x + y
                    break
        except Exception:
            pass
    return None


def _sparse_const(space, op, xv, c):
    """x op c for a non-negative symbolic x and a non-negative constant c with few 1-bits:
    only the digits of x at c's bit positions are needed (digit_i = (x div 2^i) mod 2)."""
    if c < 0 or bin(c).count("1") > 12:
        return None
    # bits already known to be set in this term (it is itself the result of `y | c0` on this
    # path): (y | c0) | c == y | c0 whenever c is a subset of c0 -- no solver work needed
    ones = getattr(space, "_vf_known_ones", None)
    if ones is None:
        try:
            ones = space._vf_known_ones = {}
        except AttributeError:
            ones = {}
    if op is ops.or_ and (ones.get(xv.get_id(), (None, 0))[1] & c) == c:
        return xv
    if space.is_possible(xv < 0):
        return None
    pos = [i for i in range(c.bit_length()) if c >> i & 1]
    digs = [(xv / (2**i)) % 2 for i in pos]
    if op is ops.or_:
        r = xv + z3.Sum([(1 - d) * (2**i) for i, d in zip(pos, digs)])
        ones[r.get_id()] = (r, c | ones.get(xv.get_id(), (None, 0))[1])  # the term is kept alive so its id cannot be reused
        return r
    if op is ops.xor:
        return xv + z3.Sum([(1 - 2 * d) * (2**i) for i, d in zip(pos, digs)])
    if op is ops.and_:
        return z3.Sum([d * (2**i) for i, d in zip(pos, digs)])
    return None


def _bitop(op, a: Integral, b: Integral):
    with NoTracing():
        asym = isinstance(a, bl.SymbolicInt)
        bsym = isinstance(b, bl.SymbolicInt)
        if not asym and not bsym:
            return op(int(a), int(b))
        # x|0 == x^0 == x
        if not asym and int(a) == 0:
            return b
        if not bsym and int(b) == 0:
            return a
        av = a.var if asym else z3.IntVal(int(a))
        bv = b.var if bsym else z3.IntVal(int(b))
        space = context_statespace()
        r = _disjoint_sum(space, av, bv)
        if r is not None:
            return bl.SymbolicInt(r)
        if not (asym and bsym):
            r = _sparse_const(space, op, av if asym else bv, int(b) if asym else int(a))
            if r is not None:
                return bl.SymbolicInt(r)
        for width, signed in ((16, False), (32, False), (64, True)):
            if signed:
                lim = 2 ** (width - 1)
                ok = z3.And(av >= -lim, av < lim, bv >= -lim, bv < lim)
            else:
                lim = 2**width
                ok = z3.And(av >= 0, av < lim, bv >= 0, bv < lim)
            if space.smt_fork(ok, probability_true=0.999):
                return bl.SymbolicInt(model_bitop(space, op, av, bv, width, signed))
    return op(a.__index__(), b.__index__())


bl.setup_binop(_bitop, {ops.or_, ops.xor})


def _bitand(op, a: Integral, b: Integral):
    with NoTracing():
        asym = isinstance(a, bl.SymbolicInt)
        bsym = isinstance(b, bl.SymbolicInt)
        if not asym and not bsym:
            return int(a) & int(b)
        if bsym and not asym:
            a, b, asym, bsym = b, a, True, False
        space = context_statespace()
        if not bsym:
            b = int(b)
            if b == 0:
                return 0
            if b > 0:
                # contiguous mask ((2^k - 1) << s): pure div/mod arithmetic
                s_ = (b & -b).bit_length() - 1
                k = b >> s_
                if k & (k + 1) == 0:
                    kmod = k + 1
                    if space.smt_fork(a.var >= 0, probability_true=0.9):
                        if s_ == 0:
                            return bl.SymbolicInt(a.var % kmod)
                        return bl.SymbolicInt(((a.var / (2**s_)) % kmod) * (2**s_))
                    if s_ == 0:
                        return bl.SymbolicInt(b - ((-a.var - 1) % kmod))
            r = _sparse_const(space, ops.and_, a.var, b)
            if r is not None:
                return bl.SymbolicInt(r)
            bv = z3.IntVal(b)
        else:
            bv = b.var
        av = a.var
        for width, signed in ((16, False), (32, False), (64, True)):
            if signed:
                lim = 2 ** (width - 1)
                ok = z3.And(av >= -lim, av < lim, bv >= -lim, bv < lim)
            else:
                lim = 2**width
                ok = z3.And(av >= 0, av < lim, bv >= 0, bv < lim)
            if space.smt_fork(ok, probability_true=0.999):
                return bl.SymbolicInt(model_bitop(space, ops.and_, av, bv, width, signed))
    return a.__index__() & b.__index__()


bl.setup_binop(_bitand, {ops.and_})

_orig_fmt = _core._PATCH_REGISTRATIONS.get(str.format)


def _fmt_stub(self, *a, **kw):
    if isinstance(self, str) and "is not within" in self:
        return "<range message elided>"
    if _orig_fmt is None:
        return str.format(self, *a, **kw)
    return _orig_fmt(self, *a, **kw)


_core._PATCH_REGISTRATIONS[str.format] = _fmt_stub


# --- never skip a path because a TypeError mentions a symbolic type: stock CrossHair treats such
# paths like failed preconditions (silently outside the verdict).  We want them reported; a
# counterexample that does not replay is then a harness error to be fixed, never a silent gap.
_core.suspected_proxy_intolerance_exception = lambda exc_value: False

# --- solver portfolio on `unknown`: CrossHair's incremental solver sometimes times out on
# div/mod-heavy linear queries that a fresh solver (or z3's other arithmetic core) decides in
# milliseconds.  On `unknown` the same assertions are re-decided by fresh solvers before the
# path is given up.  This only ever turns `unknown` into a definite sat/unsat answer.
from crosshair import statespace as _ss

_orig_solver_is_sat = _ss.solver_is_sat
PORTFOLIO_STATS = {"unknown": 0, "rescued": 0}


def _solver_is_sat(solver, *exprs) -> bool:
    solver.set(timeout=2500)  # short leash on the incremental solver; the portfolio below gets 20 s each
    ret = solver.check(*exprs)
    if ret != z3.unknown:
        return ret == z3.sat
    PORTFOLIO_STATS["unknown"] += 1
    if solver.reason_unknown() == "interrupted from keyboard":
        raise KeyboardInterrupt
    for params in ({"smt.arith.solver": 2}, {}, {"smt.arith.solver": 6, "smt.random_seed": 7}):
        s2 = z3.Tactic("smt").solver()
        s2.set(timeout=20000)
        for k, v in params.items():
            s2.set(k, v)
        s2.add(solver.assertions())
        r = s2.check(*exprs)
        if r == z3.unsat:
            PORTFOLIO_STATS["rescued"] += 1
            return False
        if r == z3.sat:
            if exprs:
                # a feasibility question: the answer is all that is needed
                PORTFOLIO_STATS["rescued"] += 1
                return True
            # the caller will read a model from `solver` itself: it has to find one on its own
            solver.set(timeout=30000)
            if solver.check() == z3.sat:
                PORTFOLIO_STATS["rescued"] += 1
                return True
            break
    return _orig_solver_is_sat(solver, *exprs)


_ss.solver_is_sat = _solver_is_sat

# --- `int in <symbolic bytes>`: stock CrossHair realises the whole byte string (data property);
# compare element by element instead (the readers use `0 in data` to find the C-string terminator).
_orig_bytes_contains = bl.BytesLike.__contains__


def _bytes_contains(self, item):
    if isinstance(item, Integral):
        for b in self._ch_codepoints:
            if b == item:
                return True
        return False
    return _orig_bytes_contains(self, item)


bl.BytesLike.__contains__ = _bytes_contains

# --- pack/unpack memo: int.from_bytes(x.to_bytes(n, order, signed=s), order, signed=s) is x.
# Stock CrossHair rebuilds sum(((x div 256^i) mod 256) * 256^i), which z3 can prove equal to x but
# which makes every later operation on a loaded value a tower of div/mod terms.  The memo is keyed
# on the identity of the byte terms, the byte order and the signedness, so a reader that unpacks
# with a different width or signedness than the writer packed gets no hit and is modelled in full.
_orig_to_bytes = bl.SymbolicInt.to_bytes
_orig_from_bytes = _core._PATCH_REGISTRATIONS.get(int.from_bytes)
MEMO_STATS = {"hits": 0}


def _byte_key(seq):
    key = []
    for x in seq:
        if isinstance(x, bl.SymbolicInt):
            key.append(x.var.get_id())  # the terms are kept alive by the memo entry (see _to_bytes)
        elif isinstance(x, int):
            key.append(("c", int(x)))
        else:
            return None
    return tuple(key)


def _memo(space):
    m = getattr(space, "_vf_pack_memo", None)
    if m is None:
        m = space._vf_pack_memo = {}
    return m


def _to_bytes(self, *a, **kw):
    res = _orig_to_bytes(self, *a, **kw)
    with NoTracing():
        try:
            byteorder = a[1] if len(a) > 1 else kw.get("byteorder", "big")
            signed = bool(kw.get("signed", False))
            inner = getattr(res, "inner", None)
            if inner is not None and isinstance(self, bl.SymbolicInt) and isinstance(byteorder, str):
                key = _byte_key(list(inner))
                if key is not None:
                    _memo(context_statespace())[(key, byteorder, signed)] = (self, [x.var for x in inner if isinstance(x, bl.SymbolicInt)])
        except Exception:
            pass
    return res


def _from_bytes(b, *a, **kw):
    hit = None
    with NoTracing():
        try:
            byteorder = a[0] if a else kw.get("byteorder", "big")
            signed = kw.get("signed", False)
            inner = getattr(b, "inner", None)
            if inner is not None and isinstance(byteorder, str) and isinstance(signed, bool):
                key = _byte_key(list(inner))
                if key is not None:
                    hit = _memo(context_statespace()).get((key, byteorder, signed))
                    hit = hit[0] if hit is not None else None
        except Exception:
            hit = None
        if hit is not None:
            MEMO_STATS["hits"] += 1
    if hit is not None:
        return hit
    return _orig_from_bytes(b, *a, **kw)


bl.SymbolicInt.to_bytes = _to_bytes
if _orig_from_bytes is not None:
    _core._PATCH_REGISTRATIONS[int.from_bytes] = _from_bytes

# --- bytes.ljust on symbolic bytes: stock CrossHair realises the value; pad symbolically instead
_orig_bytes_ljust = bl.BytesLike.ljust


def _bytes_ljust(self, width, fillchar=b" "):
    with NoTracing():
        ok = isinstance(width, int) and isinstance(fillchar, (bytes, bytearray)) and len(fillchar) == 1
        cps = self._ch_codepoints
        ok = ok and isinstance(cps, (list, tuple))
        if ok:
            n = len(cps)
            if width <= n:
                return self._ch_make(list(cps))
            return self._ch_make(list(cps) + [fillchar[0]] * (width - n))
    return _orig_bytes_ljust(self, width, fillchar)


bl.BytesLike.ljust = _bytes_ljust
