"""CrossHair plugin: bit-vector model for | ^ & on symbolic ints (instead of realization)."""
import operator as ops
from numbers import Integral
import z3
from crosshair.libimpl import builtinslib as bl
from crosshair.statespace import context_statespace
from crosshair.tracers import NoTracing
from crosshair.core import realize

W = 64
def _bitop(op, a: Integral, b: Integral):
    with NoTracing():
        if not isinstance(a, bl.SymbolicInt) and not isinstance(b, bl.SymbolicInt):
            return op(int(a), int(b))
        av = a.var if isinstance(a, bl.SymbolicInt) else z3.IntVal(int(a))
        bv = b.var if isinstance(b, bl.SymbolicInt) else z3.IntVal(int(b))
        space = context_statespace()
        lim = 2 ** (W - 1)
        ok = z3.And(av >= -lim, av < lim, bv >= -lim, bv < lim)
        if space.smt_fork(ok, probability_true=0.999):
            r = z3.BV2Int(op(z3.Int2BV(av, W), z3.Int2BV(bv, W)), True)
            return bl.SymbolicInt(r)
    return op(a.__index__(), b.__index__())

bl.setup_binop(_bitop, {ops.or_, ops.xor})

# --- stub: range-error message formatting is not the subject; avoid realizing symbolic ints
from crosshair import core as _core
_orig_fmt = _core._PATCH_REGISTRATIONS.get(str.format)
def _fmt_stub(self, *a, **kw):
    if isinstance(self, str) and "is not within" in self:
        return "<range message elided>"
    return _orig_fmt(self, *a, **kw)
_core._PATCH_REGISTRATIONS[str.format] = _fmt_stub
