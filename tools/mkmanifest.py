#!/usr/bin/env python3
"""Regenerate /verif/MANIFEST.json from the table below (kept in one place so that the manifest
is always valid and the claimed set is explicit)."""
import json
import os

ROOT = "/verif"

TECH_S = "bounded symbolic execution of the real rv code (CrossHair + z3), counterexample replay"
TECH_SF = "bounded symbolic execution (CrossHair + z3) + AST->SMT-LIB QF_BVFP translation decided by z3 and cvc5, counterexample replay"

# property id -> (design_ref, text, level_note, technique)
CLAIMED = {
    "C12": ("DESIGN.md C12",
            "Every obligation is decided by z3 over all values of the stated widths: note encode/decode over the whole note domain, pattern byte images "
            "(every byte symbolic) for the listed shapes, and one (old word, sub-field, new value) obligation per packed sub-field with the old word over "
            "its full 16/32-bit width.  Universal inside those bounds, silent outside (larger patterns).",
            "CrossHair's models of int/bytes/struct, z3, the bit-operation model and stubs of vf/chplug.py (validated on every run), the oracle formulas in vf/props/c12.py",
            TECH_S),
}

CLAIMED["C01"] = ("DESIGN.md C01",
    "Real Project.write_to -> real read_sunvox_file with every value of a concrete shape symbolic over its documented width: header fields, names with free code points around "
    "the 32-byte SNAM limit, all 42 module types (controllers, options, MIDI bindings, common and MIDI settings), module slot layouts with empty positions, pattern lists "
    "(patterns, clones, empty) with symbolic cells.  Universal inside each shape; shapes are enumerated from a stated finite family.",
    "CrossHair/z3, the stubs of vf/chplug.py + vf/prelude.py, the snapshot oracle vf/invariants.py", TECH_S)
CLAIMED["C02"] = ("DESIGN.md C02",
    "Every non-Output type through Synth write/read and Module.clone() with symbolic controller values, options, bindings and common settings; array payloads symbolic element-wise; "
    "project-writer vs synth-writer byte equality.  FMX float payload and the empty-synth refusal are concrete side-conditions (listed as such).",
    "as C01; struct float packing is outside CrossHair's model (floats enumerated)", TECH_S)
CLAIMED["C09"] = ("DESIGN.md C09",
    "One symbolic value over ALL integers per controller kind and type: accept/reject/read-back semantics of every controller (attribute assignment, constructor keyword, lenient mode) "
    "against the ranges, members and defaults of specs/fileformat.yaml.  Defaults and by-name enum assignment are finite concrete side-conditions.",
    "CrossHair/z3, stubs, vf/spec.py (reference model read from the YAML)", TECH_S)

PENDING_REASON = "no check is registered for this property yet (machinery under construction in this round); nothing is claimed"
NOT_APPLICABLE = {}


def main():
    props = [json.loads(l) for l in open(os.path.join(ROOT, "properties.jsonl"))]
    checks = []
    na = []
    for p in props:
        pid = p["id"]
        if pid in CLAIMED:
            ref, text, note, tech = CLAIMED[pid]
            checks.append({
                "property_id": pid,
                "quick_cmd": f"./check {pid} --tier quick",
                "thorough_cmd": f"./check {pid} --tier thorough",
                "evidence_file": f"/verif/evidence/{pid}.json",
                "replay_cmd_template": f"./check {pid} --replay {{path}}",
                "engine": "S+F" if "SMT-LIB" in tech else "S",
                "level_claimed": {"category": "other", "text": text, "design_ref": ref},
                "level_note": note,
                "technique": tech,
            })
        else:
            na.append({"property_id": pid, "reason": NOT_APPLICABLE.get(pid, PENDING_REASON)})
    man = {
        "version": 1,
        "setup_cmd": "./setup.sh",
        "hooks": {
            "guard": "METRASYNTH_RADIANT_VOICES_VERIF",
            "enable": "no source hooks are needed: every stub is injected from the harness process (vf/prelude.py, vf/chplug.py); ./check exports METRASYNTH_RADIANT_VOICES_VERIF=1 for uniformity",
            "baseline_off_cmd": "cd /repo && /venv/bin/python -m pytest -ra -q -p no:cacheprovider --timeout=900 --continue-on-collection-errors",
            "source_commits": [],
            "add_only": True,
        },
        "engines": [
            {"name": "S", "path": "vf/driver.py vf/worker.py vf/prelude.py vf/chplug.py vf/symio.py vf/harness.py vf/props/",
             "serves_properties": sorted(CLAIMED),
             "kind_free_text": "symbolic execution of the real rv functions from /repo's working tree (CrossHair 0.0.110 + z3 5.1): one generated harness per obligation; "
                               "discharged = 'Confirmed over all paths' and the reachability twin violated; counterexamples are replayed on the unpatched library before VIOLATION"},
            {"name": "F", "path": "vf/fpengine.py", "serves_properties": [p for p in ("C10", "C20") if p in CLAIMED],
             "kind_free_text": "AST -> SMT-LIB2 (QF_BVFP) translation of the float kernels, decided by z3 and cvc5, translator validated against the real function on every run"},
        ],
        "checks": checks,
        "notes": "./check exit codes: 0 held on everything explored (known findings printed as KNOWN-FINDING), 1 VIOLATION (replay-confirmed, not listed), "
                 "2 an obligation was inconclusive, 3 harness error.  Known findings: /verif/known_findings.json.  Design: /verif/DESIGN.md.",
        "not_applicable": na,
    }
    json.dump(man, open(os.path.join(ROOT, "MANIFEST.json"), "w"), indent=1)
    print("claimed:", sorted(CLAIMED), "not claimed:", [x["property_id"] for x in na])


if __name__ == "__main__":
    main()
