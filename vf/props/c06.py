"""C06 — edits made to a loaded object are what gets saved."""
import glob
import os
import random

from vf import modgen
from vf.harness import B, I32, R, U8, U16, U32, Ob, build
from vf.modgen import SETUP

EXPLANATION = (
    "C06: a shipped fixture (or a reference-encoded file) is loaded concretely by the real reader, a group of public serialized attributes of the loaded object is "
    "assigned SYMBOLIC in-domain values through the public API, the object is saved and re-loaded.  Asserted: (a) the edit changed nothing but the edited entries "
    "of the observable snapshot, (b) the re-loaded object's snapshot equals the edited object's -- so the changed values show and nothing of the original file "
    "is replayed in place of the live state."
)
BOUNDS = {"quick": {"files": "sampler.sunsynth, metamodule.sunsynth, 10 seeded .sunsynth fixtures, 2 .sunvox fixtures", "attributes": "every controller / option / binding / common setting of the loaded module in fork-bounded chunks; "
                             "sampler envelopes, samples, note map, record fields (fixture) and each envelope kind on a library-written default sampler; project header, module and pattern fields"},
          "thorough": {"files": "all fixtures <= 3 KB", "attributes": "as quick"}}
OUTSIDE = ["fixtures larger than 3 KB", "attributes that are not serialized"]
ASSUMPTIONS = ["module flags keep the type's default bits"]

G = '("type", "common_synth", "midi", "ctl", "opt", "cmid", "payload")'
TYPE_OF_FILE = {"analog-generator": "Analog generator", "dc-blocker": "DC Blocker", "drum-synth": "DrumSynth", "filter-pro": "Filter Pro", "pitch-detector": "Pitch Detector",
                "pitch-shifter": "Pitch shifter", "vocal-filter": "Vocal filter", "vorbis-player": "Vorbis player"}


def mtype_of(path):
    import rv.api
    from rv.api import read_sunvox_file
    return read_sunvox_file(path).module.mtype


def module_edit_obs(path, rnd, tag):
    obs = []
    mt = mtype_of(path)
    data = open(path, "rb").read()
    only = ["volume", "input_module", "play_patterns", "bpm", "tpl"] if mt == "MetaModule" else None
    items = modgen.items_controllers(mt, rnd=rnd, only=only, enums_symbolic=False)
    items += modgen.items_options(mt, skip=("user_defined_controllers",))
    if mt != "MetaModule":
        items += modgen.items_cmid(mt, rnd=rnd, max_ctls=5)
    items += modgen.items_common(mt, in_project=False)
    items += modgen.items_midi(mt)
    # only the symbolic chunk is edited; everything else keeps what the file had
    for ci, ch in enumerate(modgen.pack(items, max_forks=16, max_params=28)):
        lines, params = [], []
        for i in ch:
            it = items[i]
            params.append(it.param)
            lines.append(it.line.format(v=it.param[0]))
        code = "\n".join("    " + l for l in lines)
        body = f"""
    syn = load_bytes(DATA)
    mod = syn.module
    s0 = snap_module(mod, groups={G})
{code}
    s1 = snap_module(mod, groups={G})
    if len(s0) != len(s1):
        return False
    for (k, a), (_, b) in zip(s0, s1):
        if not allowed(k) and not (a == b):
            return False     # the edit touched something it should not have
    m2 = rt(syn).module
    s2 = snap_module(m2, groups={G})
    return same(s1, s2)
"""
        keys = []
        for i in ch:
            k = items[i].key
            keys.append(k)
        setup = SETUP + f"DATA = {data!r}\nEDITED = {keys!r}\n" + '''

def allowed(k):
    """snapshot key k may differ after the edit only if it belongs to an edited attribute
    (or is switched off by it: exclusive options)"""
    for e in EDITED:
        e2 = {"finetune": "mod_finetune", "relative_note": "mod_relative_note"}.get(e, e)
        if k == "ctl." + e or k == e2 or k == e or k == "payload." + e or k.startswith("color") and e.startswith("color") or (e.startswith("opt.") and k.startswith("opt.")) or (e.startswith("cmid.") and k.startswith("cmid.")):
            return True
    return False
'''
        obs.append(Ob(f"{tag}.{os.path.basename(path).split('.')[0]}.s{ci}", build(params, body, setup=setup),
                      f"{os.path.basename(path)} ({mt}): after loading, assigning {len(ch)} attributes and saving, the re-loaded module shows exactly the edited state; nothing else changed",
                      group="module", shape=f"fixture {os.path.basename(path)}; edited: {keys}", symbolic=", ".join(p_[0] for p_ in params), timeout=300))
    return obs


def sampler_obs(rnd):
    data = open("/repo/tests/files/sampler.sunsynth", "rb").read()
    obs = []
    setup = SETUP + f"DATA = {data!r}\nSMP = MODULE_CLASSES['Sampler']\n"
    edits = [
        ("envelopes", [U16("x1"), R("y1", 0, 0x8000), R("py", -0x4000, 0x4000), U8("gain"), R("sus", 0, 4)],
         "mod.volume_envelope.points[1] = (x1, y1)\n    mod.volume_envelope.points.append((x1, 77))\n    mod.panning_envelope.points[0] = (0, py)\n    mod.pitch_envelope.gain_pct = gain\n    mod.volume_envelope.sustain_point = sus\n    mod.effect_control_envelopes[2].points = [(0, y1), (x1, 5)]\n    mod.effect_control_envelopes[2].enable = True"),
        ("samples", [U8("d0"), U8("d1"), U32("ls"), U8("vol"), R("pan", -128, 127), U32("rate")],
         "_present = [i for i, s_ in enumerate(mod.samples) if s_ is not None]\n    _s = mod.samples[_present[0]]\n    _s.loop_start = ls\n    _s.volume = vol\n    _s.panning = pan\n    _s.rate = rate\n    _n = SMP.Sample()\n    _n.data = bytes([d0, d1])\n    _n.format = SMP.Format.int8\n    _n.channels = SMP.Channels.mono\n    mod.samples[100] = _n"),
        ("notemap_record", [U8("n0"), U8("n1"), I32("cur"), U8("vo"), R("vr", 0, 63), R("fo", 0, 8192)],
         "mod.note_samples[NOTE.C0] = n0\n    mod.note_samples[NOTE.a9] = n1\n    mod.editor_cursor = cur\n    mod.volume_old = vo\n    mod.vibrato_rate = vr\n    mod.volume_fadeout = fo\n    mod.instrument_name = b'edited'"),
        ("options_ctl", [R("fit", 0, 255), B("mono"), R("vol", 0, 512), R("poly", 1, 32)],
         "mod.fit_to_pattern = fit\n    mod.record_in_mono = mono\n    mod.volume = vol\n    mod.polyphony = poly"),
        ("effect", [R("ev", 0, 1024)], "mod.effect = Synth(MODULE_CLASSES['Amplifier'](volume=ev))"),
    ]
    for name, params, code in edits:
        body = f"""
    syn = load_bytes(DATA)
    mod = syn.module
    {code}
    s1 = snap_module(mod, groups={G})
    m2 = rt(syn).module
    if not same(s1, snap_module(m2, groups={G})):
        return False
    # and once more: the saved file is itself editable
    m2.volume_envelope.points.append((9, 9))
    m3 = rt(Synth(m2)).module
    return m3.volume_envelope.points == m2.volume_envelope.points
"""
        obs.append(Ob(f"sampler.{name}", build(params, body, setup=setup), f"sampler.sunsynth: edits to {name} of the loaded Sampler are what gets saved (no part of the original file is replayed)",
                      group="sampler", shape="fixture sampler.sunsynth", symbolic=", ".join(p_[0] for p_ in params), timeout=300))
    # the same for a file in which most envelopes are at their INITIAL values (a sampler written by this library without edits):
    # one envelope at a time is edited, the others stay at their defaults -- each must come back as edited / as it was
    for ei, attr in enumerate(("volume_envelope", "panning_envelope", "pitch_envelope", "effect_control_envelopes[1]")):
        ymin = 0 if attr in ("volume_envelope", "effect_control_envelopes[1]") else -0x4000
        body = f"""
    syn = load_bytes(save_bytes(Synth(SMP())))
    mod = syn.module
    e = mod.{attr}
    e.points = [(0, y0), (x1, y1), (x1 + 7, y0)]
    e.enable = True
    e.sustain_point = sus
    s1 = snap_module(mod, groups={G})
    m2 = rt(syn).module
    if not same(s1, snap_module(m2, groups={G})):
        return False
    return m2.{attr}.points == [(0, y0), (x1, y1), (x1 + 7, y0)] and m2.{attr}.sustain_point == sus
"""
        obs.append(Ob(f"sampler.generated.{attr.replace('[', '').replace(']', '')}", build([R("y0", ymin, ymin + 0x8000), R("x1", 0, 60000), R("y1", ymin, ymin + 0x8000), R("sus", 0, 2)], body, setup=setup),
                      f"a sampler file written by the library with all envelopes at their initial values: editing {attr} (points not on any coarser grid) after the load is what gets saved; the untouched envelopes stay as they were",
                      group="sampler", shape="load(save(Synth(Sampler()))), one envelope edited", symbolic="two y values over the envelope's range, one x, sustain point", timeout=300))
    return obs


def project_obs(path, rnd):
    data = open(path, "rb").read()
    name = os.path.basename(path).split(".")[0].replace("-", "_")
    setup = SETUP + f"DATA = {data!r}\n"
    obs = []
    body = """
    p = load_bytes(DATA)
    s0 = snap_project(p)
    p.initial_bpm = bpm
    p.global_volume = gv
    p.modules_x_offset = xo
    p.name = "renamed"
    mods = [m_ for m_ in p.modules if m_ is not None]
    last = mods[-1]
    last.x = mx
    last.scale = sc
    last.color = (cr, 2, 3)
    s1 = snap_project(p)
    pref = "m%d." % last.index
    for (k, a), (_, b) in zip(s0, s1):
        if k not in ("initial_bpm", "global_volume", "modules_x_offset", "name", pref + "x", pref + "scale", pref + "color") and not (a == b):
            return False
    q = rt(p)
    return same(s1, snap_project(q))
"""
    obs.append(Ob(f"project.{name}.fields", build([U32("bpm"), U32("gv"), I32("xo"), I32("mx"), U32("sc"), U8("cr")], body, setup=setup),
                  f"{os.path.basename(path)}: edited project header and module fields are what gets saved; every other value is unchanged", group="project", shape=f"fixture {os.path.basename(path)}",
                  symbolic="3 header fields, 3 module fields", timeout=400))
    body = """
    p = load_bytes(DATA)
    pats = [x for x in p.patterns if x is not None and hasattr(x, "data")]
    if not pats:
        return True
    pat = pats[0]
    s0 = snap_project(p)
    first_save = save_bytes(p)          # the object has been serialised once before it is edited
    n = pat.data[0][0]
    n.vel = v
    n.ctl = c
    n.val = w
    n.module = mo
    pat.x = px
    s1 = snap_project(p)
    q = rt(p)
    for (k, a), (_, b) in zip(s0, s1):
        if not (k.endswith(".raw_data") or k.endswith(".cells") or k.endswith(".x")) and not (a == b):
            return False
    return same(s1, snap_project(q))
"""
    obs.append(Ob(f"project.{name}.pattern", build([R("v", 0, 129), U16("c"), U16("w"), U16("mo"), I32("px")], body, setup=setup),
                  f"{os.path.basename(path)}: an edited note cell and pattern position are what gets saved", group="project", shape=f"fixture {os.path.basename(path)}", symbolic="4 note fields, pattern x", timeout=400))
    return obs


def obligations(tier, seed):
    rnd = random.Random(seed)
    files = sorted(glob.glob("/repo/tests/files/*.sunsynth"))
    files = [f for f in files if os.path.getsize(f) <= 3000]
    must = ["/repo/tests/files/sampler.sunsynth", "/repo/tests/files/metamodule.sunsynth"]
    if tier == "quick":
        pick = must + rnd.sample([f for f in files if f not in must and os.path.getsize(f) <= 1200], 10)
    else:
        pick = files
    obs = []
    for f in pick:
        obs += module_edit_obs(f, rnd, "edit")
    obs += sampler_obs(rnd)
    projs = ["/repo/tests/files/single-fm.sunvox", "/repo/tests/files/supertracks.sunvox"] if tier == "quick" else sorted(glob.glob("/repo/tests/files/*.sunvox"))
    for f in projs:
        if os.path.getsize(f) <= 3000:
            obs += project_obs(f, rnd)
    return obs
