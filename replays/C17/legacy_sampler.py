#!/venv/bin/python
# Replay of a solver counterexample against the real library: no CrossHair, no stubs, real io.BytesIO.
# property C17  obligation legacy.sampler
# a loaded legacy sampler instrument keeps its state and its saved bytes while other instruments (legacy and modern) are loaded and mutated; fresh Samplers are unaffected
# exit 1 = the property fails for this input on the current /repo tree; exit 0 = it holds.
import os, sys
os.environ["VF_REPLAY"] = "1"
sys.path.insert(0, "/verif")
ARGS = (0, 0, 0, 0, 0)
KWARGS = {}
HARNESS = 'from vf.prelude import *\nfrom rv.modules import MODULE_CLASSES\nfrom vf.invariants import *\n\n\ndef h(x1: int, y1: int, x2: int, y2: int, v: int) -> bool:\n    """\n    pre: (0 <= x1 <= 65535) and (0 <= y1 <= 64) and (0 <= x2 <= 65535) and (0 <= y2 <= 64) and (0 <= v <= 512)\n    post: _\n    """\n    from vf import refformat as RF\n    def legacy(x, y, smp):\n        rec = RF.sampler_record(sign=b"\\0\\0\\0\\0", version=0, with_tail=False, vol_points=[x, y] + [0] * 22, pan_points=[0] * 24, nvol=1, npan=0,\n                                vol_flags=1, pan_flags=0, vol_sus=0, pan_sus=0, vib_depth=9, fadeout=300)\n        return RF.enc_synth("Sampler", flags=0x8459, cvals=[256, 128, 1, 1, 8, 4, 128, 0], chunks=[(0, rec), (1, [0] * 40), (2, smp, 1, 8000)], chnk=0x10B)\n    SMP = MODULE_CLASSES["Sampler"]\n    f0 = save_bytes(Synth(SMP()))\n    b = load_bytes(legacy(x1, y1, [1, 2, 3, 4])).module\n    s0 = snap_module(b, groups=("type", "common", "ctl", "opt", "payload"))\n    y0 = save_bytes(Synth(b))\n    a = load_bytes(legacy(x2, y2, [5, 6])).module\n    m_ = load_bytes(save_bytes(Synth(SMP(volume=v)))).module\n    a.volume = v\n    a.volume_envelope.points.append((x2, 0))\n    s1 = snap_module(b, groups=("type", "common", "ctl", "opt", "payload"))\n    if not same(s0, s1) or save_bytes(Synth(b)) != y0:\n        return False\n    u = load_bytes(y0).module\n    return same(s0, snap_module(u, groups=("type", "common", "ctl", "opt", "payload"))) and save_bytes(Synth(SMP())) == f0 and b.volume_envelope.points == [(x1, y1 * 0x200)]\n\n\ndef h__reach(x1: int, y1: int, x2: int, y2: int, v: int) -> bool:\n    """\n    pre: (0 <= x1 <= 65535) and (0 <= y1 <= 64) and (0 <= x2 <= 65535) and (0 <= y2 <= 64) and (0 <= v <= 512)\n    post: _\n    """\n    h(x1, y1, x2, y2, v)\n    return False\n'
ns = {"__name__": "vf_replay"}
exec(compile(HARNESS, "<harness legacy.sampler>", "exec"), ns)
try:
    ok = ns['h'](*ARGS, **KWARGS)
except Exception as e:
    import traceback; traceback.print_exc()
    print("replay: raised", type(e).__name__, e)
    sys.exit(1)
print("replay: h(*%r, **%r) returned %r" % (ARGS, KWARGS, ok))
sys.exit(0 if ok else 1)
