"""Pure-Python seekable binary files used instead of the C `io.BytesIO` under symbolic
execution (the C implementation realises symbolic bytes).  Under replay the real BytesIO
is used, never these classes."""


def _concrete(n, hi):
    """A symbolic int n >= 0 is turned into a concrete one by a forked linear search over 0..hi;
    values above hi are canonicalised to hi + 1 (callers only use this where every value above
    hi behaves alike: reading / positioning beyond the end of the data)."""
    if type(n) is int:
        return n if n <= hi else hi + 1
    if n > hi:
        return hi + 1
    for c in range(hi + 1):
        if n == c:
            return c
    return hi + 1


class PyFile:
    """Seekable binary file over a Python list of ints (elements may be symbolic)."""

    def __init__(self, data=b""):
        self.buf = list(data)
        self.pos = 0
        self.closed = False

    def write(self, b):
        n = len(b)
        if self.pos == len(self.buf):
            self.buf.extend(b[i] for i in range(n))
            self.pos += n
            return n
        for i in range(n):
            x = b[i]
            if self.pos < len(self.buf):
                self.buf[self.pos] = x
            else:
                self.buf.append(x)
            self.pos += 1
        return n

    def read(self, n=-1):
        if n is None or n < 0:
            n = len(self.buf) - self.pos
        if type(n) is not int:
            n = _concrete(n, max(0, len(self.buf) - self.pos))
        out = self.buf[self.pos : self.pos + n]
        self.pos += len(out)
        return bytes(out)

    def tell(self):
        return self.pos

    def seek(self, pos, whence=0):
        if whence == 1:
            pos = self.pos + pos
        elif whence == 2:
            pos = len(self.buf) + pos
        if type(pos) is not int:
            if pos < 0:
                raise ValueError("negative seek position")
            pos = _concrete(pos, len(self.buf))
        self.pos = pos
        return pos

    def getvalue(self):
        return bytes(self.buf)

    def close(self):
        self.closed = True

    def __enter__(self):
        return self

    def __exit__(self, *a):
        self.close()


class InjectedFault(OSError):
    pass


class Cancelled(BaseException):
    """an interruption that is not an Exception (the family of KeyboardInterrupt, SystemExit, GeneratorExit,
    asyncio.CancelledError) -- delivered at a read call"""


class FaultFile(PyFile):
    """PyFile whose k-th read() raises (mode 'raise': an OSError; mode 'cancel': a BaseException that is
    not an Exception) or from whose k-th read() on every read returns b'' (mode 'eof': a file truncated
    at that point)."""

    def __init__(self, data, k, mode="raise"):
        super().__init__(data)
        self.k = k
        self.mode = mode
        self.nreads = 0

    def read(self, n=-1):
        self.nreads += 1
        if self.mode == "raise":
            if self.nreads == self.k:
                raise InjectedFault("injected at read %d" % self.k)
        elif self.mode == "cancel":
            if self.nreads == self.k:
                raise Cancelled("interrupted at read %d" % self.k)
        elif self.nreads >= self.k:
            return b""
        return super().read(n)
