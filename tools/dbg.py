"""debug helper: python tools/dbg.py <harness.py> <func> <timeout>  -> verbose CrossHair log on stdout"""
import sys
from crosshair.util import set_debug
set_debug(True)
sys.argv = ["w", sys.argv[1], sys.argv[2], sys.argv[3], "--no-twin"]
from vf import worker
worker.main()
