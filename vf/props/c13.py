"""C13 — generated module metadata agrees with the YAML format specification."""
import random

from vf import spec
from vf.harness import B, INT, R, Ob, build
from vf.modgen import cls_expr

EXPLANATION = (
    "C13: a reference semantic model of every controller and option is built from specs/fileformat.yaml (vf/spec.py) and compared with the "
    "real classes *behaviourally, for all values*: which integers a controller accepts and what it stores (pins bounds and range kind), "
    "which controller the n-th stored value of an independently encoded file lands in (pins order and numbering), which option a bit of an "
    "independently encoded options record sets (pins byte/bit/size/inversion).  Comparisons without a variable in them (registration, group, "
    "flags, member tables, defaults, option numbers, 'no class the spec lacks') are concrete side-conditions, reported as such."
)
BOUNDS = {"quick": {"types": "all 43 YAML module types", "values": "v over all integers per range controller; stored values over each controller's whole stored domain; every option value"},
          "thorough": {"types": "as quick", "values": "as quick; every enum member symbolic in turn in the CVAL streams"}}
OUTSIDE = ["the TypeScript generator output (no symbolic engine for TypeScript here)", "array-chunk declarations of the YAML (exercised under C02)"]
ASSUMPTIONS = ["specs/fileformat.yaml is the reference"]

SETUP = "from rv.modules import MODULE_CLASSES\nfrom rv.errors import ControllerValueError\nfrom vf import refformat as RF\n"


def obligations(tier, seed):
    rnd = random.Random(seed)
    S = spec.load()
    obs = []
    for mt, sp in S.items():
        ctls = sp["controllers"]
        # ---- (a) acceptance + stored value, all integers ------------------------------------
        ranges = [c for c in ctls if c["kind"] in ("range", "compact", "nooffset")]
        for ci in range(0, len(ranges), 30):
            parts = []
            for c in ranges[ci:ci + 30]:
                n, lo, hi = c["name"], c["min"], c["max"]
                raw = "v" if (c["kind"] == "nooffset" or lo >= 0) else f"v - ({lo})"
                parts.append(f"""
    try:
        mod.{n} = v
    except ControllerValueError:
        if {lo} <= v <= {hi}:
            return False
    else:
        if not ({lo} <= v <= {hi}) or mod.get_raw({n!r}) != {raw}:
            return False""")
            body = "    mod = CLS()" + "".join(parts) + "\n    return True\n"
            obs.append(Ob(f"sem.{mt}.{ci // 30}", build([INT("v")], body, setup=SETUP + f"CLS = {cls_expr(mt)}\n"),
                          f"{mt}: every range controller accepts exactly the YAML's [min, max] and stores what the YAML's kind (plain/compact: v - min if min < 0; no-offset: v) denotes",
                          group="semantics", shape=f"{mt}: {len(ranges[ci:ci + 30])} range controllers", symbolic="v over all integers", timeout=240))
        # ---- (b) n-th stored value lands in the n-th YAML controller --------------------------
        att = [c for c in ctls if c["attached"]]
        if att:
            # enum controllers: seeded member; units: seeded member; everything else symbolic raw
            enum_choice = {}
            for c in att:
                if c["kind"] == "enum":
                    enum_choice[c["name"]] = rnd.choice(sorted(c["members"].items()))
            for ci in range(0, len(att), 40):
                params, raws, checks = [], [], []
                nb = 0
                for i, c in enumerate(att):
                    n = c["name"]
                    sym = ci <= i < ci + 40
                    if c["kind"] in ("range", "compact", "nooffset"):
                        lo, hi = c["min"], c["max"]
                        rlo, rhi = (lo, hi) if (c["kind"] == "nooffset" or lo >= 0) else (0, hi - lo)
                        if c["kind"] == "nooffset" and lo < 0:
                            rlo, rhi = 0, hi  # CVAL is an unsigned field in the reference encoder; negative no-offset values are exercised under C04
                        if sym:
                            params.append(R(f"r{i}", rlo, rhi))
                            raws.append(f"r{i}")
                            val = f"r{i}" if (c["kind"] == "nooffset" or lo >= 0) else f"r{i} + ({lo})"
                            checks.append(f"mod.{n} == {val}")
                        else:
                            raws.append(str(rnd.randint(rlo, rhi)))
                    elif c["kind"] == "enum":
                        mname, mval = enum_choice[n]
                        raws.append(str(mval))
                        if sym:
                            checks.append(f"(mod.{n}.value == {mval} and mod.{n}.name == {mname!r})")
                    elif c["kind"] == "bool":
                        if sym and nb < 3:
                            nb += 1
                            params.append(R(f"r{i}", 0, 1))
                            raws.append(f"r{i}")
                            checks.append(f"mod.{n} == (r{i} == 1)")
                        else:
                            bv = rnd.choice([0, 1])
                            raws.append(str(bv))
                            if sym:
                                checks.append(f"mod.{n} == {bool(bv)!r}")
                    elif c["kind"] == "dep":
                        unit = enum_choice[c["depends_on"]][0]
                        lo, hi = c["ranges"][unit]
                        if sym:
                            params.append(R(f"r{i}", 0 if lo < 0 else lo, hi - lo if lo < 0 else hi))
                            raws.append(f"r{i}")
                            checks.append(f"mod.{n} == " + (f"r{i} + ({lo})" if lo < 0 else f"r{i}"))
                        else:
                            raws.append(str(lo if lo >= 0 else 0))
                    else:
                        raws.append("0")
                if not params:
                    params = [R("unused", 0, 1)]
                body = f"""
    data = RF.enc_synth({mt!r}, flags={sp['flags']}, cvals=[{', '.join(raws)}]{", chunks=[(0, RF.sampler_record())], chnk=0x10B" if mt == "Sampler" else ""})
    mod = load_bytes(data).module
    if type(mod) is not CLS:
        return False
    return {' and '.join(checks) if checks else 'True'}
"""
                obs.append(Ob(f"order.{mt}.{ci // 40}", build(params, body, setup=SETUP + f"CLS = {cls_expr(mt)}\n"),
                              f"{mt}: in a reference-encoded synth the i-th CVAL is decoded into the i-th attached controller of the YAML list, with the YAML's offset convention",
                              group="order", shape=f"REF-ENC synth({mt}) with {len(att)} CVALs; enum/unit members seeded: " + ", ".join(f"{k}={v[0]}" for k, v in list(enum_choice.items())[:8]),
                              symbolic=f"{len(params)} stored values over the whole stored domain of their controllers", timeout=240))
        # ---- (c) options: reference-encoded record -> real reader --------------------------------
        if sp["options"]:
            layout = [(o["name"], o["byte"], o["bit"], o["size"], o["inverted"]) for o in sp["options"]]
            names = [o["name"] for o in sp["options"] if o["name"] != "user_defined_controllers"]
            for gi in range(0, len(names), 4):
                grp = names[gi:gi + 4]
                params, vals = [], []
                for o in sp["options"]:
                    n = o["name"]
                    if n == "user_defined_controllers":
                        vals.append(f"{n!r}: {rnd.choice([0, 1, 3])}")
                    elif n in grp:
                        params.append(B("o_" + n) if o["size"] == 1 else R("o_" + n, 0, 2 ** o["size"] - 1))
                        vals.append(f"{n!r}: o_{n}")
                    else:
                        vals.append(f"{n!r}: {(rnd.choice([True, False]) if o['size'] == 1 else rnd.randint(0, 2 ** o['size'] - 1))!r}")
                checks = " and ".join(f"mod.{n} == o_{n}" for n in grp)
                extra = '[(0, RF.cat([RF.ck(b"SVOX"), RF.ck(b"VERS", [1, 2, 1, 2]), RF.ck(b"SFFF", RF.u32(0x43)), RF.ck(b"SNAM", [79] + [0] * 31), RF.ck(b"SEND")]))] + ' if mt == "MetaModule" else ""
                body = f"""
    vals = {{{', '.join(vals)}}}
    rec = RF.enc_options(LAYOUT, vals)
    data = RF.enc_synth({mt!r}, flags={sp['flags']}, chunks={extra}{"[(0, RF.sampler_record())] + " if mt == "Sampler" else ""}[({sp['options_chnm']}, rec)], chnk={0x10B if mt == 'Sampler' else 104 if mt == 'MetaModule' else 4})
    mod = load_bytes(data).module
    return {checks}
"""
                obs.append(Ob(f"optenc.{mt}.{gi // 4}", build(params, body, setup=SETUP + f"LAYOUT = {layout!r}\n"),
                              f"{mt}: an options record encoded from the YAML layout (byte, bit, size, inversion; chunk number {sp['options_chnm']}) is decoded by the real reader into the same option values",
                              group="options", shape=f"REF-ENC synth({mt}); options {grp} symbolic, the rest seeded", symbolic="every representable value of each option of the group", timeout=240))
    # ---- (c2) option bounds of the YAML are enforced for every integer -----------------------------------
    for mt, sp in S.items():
        for o in sp["options"]:
            if o["min"] is None or o["max"] is None:
                continue
            body = f"""
    mod = CLS()
    mod.{o['name']} = v
    got = mod.{o['name']}
    return got == (v if {o['min']} <= v <= {o['max']} else ({o['min']} if v < {o['min']} else {o['max']}))
"""
            obs.append(Ob(f"optbounds.{mt}.{o['name']}", build([INT("v")], body, setup=SETUP + f"CLS = {cls_expr(mt)}\n"),
                          f"{mt}.{o['name']}: the YAML's bounds [{o['min']}, {o['max']}] are what the generated class enforces (clamp), for every assigned integer",
                          group="options", shape=f"{mt}()", symbolic="v over all integers", timeout=600))
    # ---- (d) concrete side-conditions -------------------------------------------------------------
    flat = {mt: {"class_name": sp["class_name"], "group": sp["group"], "flags": sp["flags"], "options_chnm": sp["options_chnm"],
                 "controllers": [(c["name"], c["kind"], c.get("min"), c.get("max"), c.get("default"), sorted((c.get("members") or {}).items()), c["attached"],
                                  c.get("depends_on"), sorted((c.get("ranges") or {}).items())) for c in sp["controllers"]],
                 "options": [(o["name"], o["byte"], o["bit"], o["size"], o["number"], o["default"], o["inverted"], sorted(o["exclusive_of"]), o["min"], o["max"]) for o in sp["options"]]}
            for mt, sp in S.items()}
    src = "from vf.prelude import *\n" + SETUP + f'''from enum import Enum
from rv.controller import Range, CompactRange, NoOffsetRange, WarnOnlyRange, DependentRange

SPEC = {flat!r}


def kind_of(c):
    t = c.value_type
    if isinstance(t, DependentRange):
        return "dep"
    if isinstance(t, CompactRange):
        return "compact"
    if isinstance(t, NoOffsetRange):
        return "nooffset"
    if isinstance(t, Range):
        return "range"
    if isinstance(t, type) and issubclass(t, Enum):
        return "enum"
    if t is bool:
        return "bool"
    return "other"


def h():
    ok = True

    def bad(*a):
        nonlocal ok
        ok = False
        print("MISMATCH", *a)

    if sorted(MODULE_CLASSES) != sorted(SPEC):
        bad("registered types", sorted(set(MODULE_CLASSES) ^ set(SPEC)))
    if len(set(id(c) for c in MODULE_CLASSES.values())) != len(MODULE_CLASSES):
        bad("a class is registered under two type names")
    for mt, sp in SPEC.items():
        cls = MODULE_CLASSES.get(mt)
        if cls is None:
            continue
        if cls.mtype != mt or cls.mgroup != sp["group"] or cls.default_flags != sp["flags"]:
            bad(mt, "type/group/flags", cls.mtype, cls.mgroup, hex(cls.default_flags))
        # the generated base class is what the YAML describes; controllers a hand-written subclass adds
        # (Sampler's instrument-record fields, MetaModule's user-defined slots) must be unattached or come
        # after the specified ones, otherwise they would shift the stored-value mapping
        base = [b for b in cls.__mro__ if b.__module__.startswith("rv.modules.base.")][0]
        live = [(n, c) for n, c in cls.controllers.items() if n in vars(base)]
        extra = [(n, c) for n, c in cls.controllers.items() if n not in vars(base)]
        names = list(cls.controllers)
        for n, c in extra:
            if c._attached and not n.startswith("user_defined_"):
                bad(mt, "hand-written attached controller not in the YAML", n)
            if names.index(n) < len(live):
                bad(mt, "extra controller", n, "precedes specified controllers")
        if [n for n, _ in live] != [c[0] for c in sp["controllers"]]:
            bad(mt, "controller order", [n for n, _ in live], [c[0] for c in sp["controllers"]])
            continue
        for i, ((n, c), s) in enumerate(zip(live, sp["controllers"]), 1):
            name, kind, lo, hi, dflt, members, attached, dep_on, ranges = s
            if c.number != i:
                bad(mt, n, "number", c.number, i)
            if kind_of(c) != kind:
                bad(mt, n, "kind", kind_of(c), kind)
            if bool(c._attached) != bool(attached):
                bad(mt, n, "attached", c._attached, attached)
            t = c.value_type
            if kind in ("range", "compact", "nooffset") and ((t.min, t.max) != (lo, hi) or c.default != dflt):
                bad(mt, n, "bounds/default", t.min, t.max, c.default, lo, hi, dflt)
            if kind == "enum":
                if sorted((m_.name, m_.value) for m_ in t) != members:
                    bad(mt, n, "member table")
                if c.default.name != dflt:
                    bad(mt, n, "default", c.default, dflt)
            if kind == "bool" and c.default is not dflt:
                bad(mt, n, "default", c.default, dflt)
            if kind == "dep":
                got = sorted((u.name, (r.min, r.max)) for u, r in t.range_map.items())
                if t.ctl_name != dep_on or got != [(k, tuple(v)) for k, v in ranges] or c.default != dflt:
                    bad(mt, n, "unit table", got, ranges)
                if any(not isinstance(r, WarnOnlyRange) for r in t.range_map.values()):
                    bad(mt, n, "unit ranges must be warn-only")
        lo_ = sorted((n, o.byte, o.bit, o.size, o.number, (o.default.value if isinstance(o.default, Enum) else o.default), bool(o.inverted), sorted(o.exclusive_of), o.min, o.max) for n, o in cls.options.items())
        if lo_ != sorted(sp["options"]):
            bad(mt, "options", [x for x in lo_ if x not in sp["options"]], [x for x in sp["options"] if x not in lo_])
        if sp["options"] and cls.options_chnm != sp["options_chnm"]:
            bad(mt, "options_chnm", cls.options_chnm, sp["options_chnm"])
    return ok
'''
    obs.append(Ob("concrete.metadata", src, "every YAML module type has exactly one registered class with the YAML's type name, group, default flags, controller list (order, numbering from 1, kind, bounds, members, defaults, unit tables, attachment) and option list (byte, bit, size, number, default, inversion, exclusivity, bounds, options chunk number); no class the spec lacks",
                  engine="C", group="metadata", shape="43 types, 502 controllers, 49 options (finite; field-by-field)"))
    return obs
