#!/venv/bin/python
# Replay of a solver counterexample against the real library: no CrossHair, no stubs, real io.BytesIO.
# property C19  obligation history.2x2.free
# two successive bulk edits of any kind (function / generator), each failing at any point or completing: after every step the pattern equals the cell-by-cell model (a failed edit leaves it exactly as before AND leaves no trace in the next edit; untouched cells keep their content), notes stay owned
# exit 1 = the property fails for this input on the current /repo tree; exit 0 = it holds.
import os, sys
os.environ["VF_REPLAY"] = "1"
sys.path.insert(0, "/verif")
ARGS = (0, 0, 0, 0, 0, 2, 0, 1, 2, 0)
KWARGS = {}
HARNESS = 'from vf.prelude import *\nfrom rv.errors import PatternOwnershipError\n\n\nclass Boom(Exception):\n    pass\n\n\ndef h(v0: int, v1: int, v2: int, v3: int, k1: int, j1: int, n1: int, k2: int, j2: int, n2: int) -> bool:\n    """\n    pre: (0 <= v0 <= 129) and (0 <= v1 <= 129) and (0 <= v2 <= 129) and (0 <= v3 <= 129) and (0 <= k1 <= 1) and (0 <= j1 <= 4)\n    pre: (0 <= n1 <= 129) and (0 <= k2 <= 1) and (0 <= j2 <= 4) and (0 <= n2 <= 129)\n    post: _\n    """\n    pat = Pattern(lines=2, tracks=2)\n    pat.data[0][0].vel = v0\n    pat.data[0][1].vel = v1\n    pat.data[1][0].vel = v2\n    pat.data[1][1].vel = v3\n    proj = None\n    if False:\n        proj = Project()\n        proj.attach_pattern(pat)\n    model = [pat.data[c_ // 2][c_ % 2].raw_data for c_ in range(4)]\n    visits = [[(0, 1), (1, 0)], [(1, 1)]]\n    for step, (kind, j, nv) in enumerate(((k1, j1, n1), (k2, j2, n2))):\n        before = pat.raw_data\n        objs = [n for line in pat.data for n in line]\n        cells = visits[step]\n        if kind == 0:\n            def fn(p_, line, track):\n                if line * 2 + track == j:\n                    raise Boom()\n                return Note(vel=nv, ctl=step + 1)\n            try:\n                pat.set_via_fn(fn)\n                ok = True\n            except Boom:\n                ok = False\n            if ok != (j >= 4):\n                return False\n            if ok:\n                model = [Note(vel=nv, ctl=step + 1).raw_data] * 4\n        else:\n            def gen(p_, new):\n                k = 0\n                for (l, t) in cells:\n                    if k == j:\n                        raise Boom()\n                    yield l, t, Note(vel=nv, val=k + 1)\n                    k += 1\n                if k == j:\n                    raise Boom()\n            try:\n                pat.set_via_gen(gen)\n                ok = True\n            except Boom:\n                ok = False\n            if ok != (j > len(cells)):\n                return False\n            if ok:\n                k = 0\n                for (l, t) in cells:\n                    model[l * 2 + t] = Note(vel=nv, val=k + 1).raw_data\n                    k += 1\n        now = [n for line in pat.data for n in line]\n        if not ok and (pat.raw_data != before or not all(a is b for a, b in zip(now, objs))):\n            return False\n        if [n.raw_data for n in now] != model:\n            return False\n        for n in now:\n            if n.pattern is not pat or (proj is not None and n.project is not proj):\n                return False\n    return True\n\n\ndef h__reach(v0: int, v1: int, v2: int, v3: int, k1: int, j1: int, n1: int, k2: int, j2: int, n2: int) -> bool:\n    """\n    pre: (0 <= v0 <= 129) and (0 <= v1 <= 129) and (0 <= v2 <= 129) and (0 <= v3 <= 129) and (0 <= k1 <= 1) and (0 <= j1 <= 4)\n    pre: (0 <= n1 <= 129) and (0 <= k2 <= 1) and (0 <= j2 <= 4) and (0 <= n2 <= 129)\n    post: _\n    """\n    h(v0, v1, v2, v3, k1, j1, n1, k2, j2, n2)\n    return False\n'
ns = {"__name__": "vf_replay"}
exec(compile(HARNESS, "<harness history.2x2.free>", "exec"), ns)
try:
    ok = ns['h'](*ARGS, **KWARGS)
except Exception as e:
    import traceback; traceback.print_exc()
    print("replay: raised", type(e).__name__, e)
    sys.exit(1)
print("replay: h(*%r, **%r) returned %r" % (ARGS, KWARGS, ok))
sys.exit(0 if ok else 1)
