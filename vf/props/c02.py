"""C02 — every module type survives a .sunsynth round trip and Module.clone()."""
import random

from vf import modgen
from vf.harness import B, I32, I8, R, U8, U16, U32, Ob, build
from vf.modgen import SETUP, attachable_types, cls_expr

EXPLANATION = (
    "C02: for every non-Output type the module is built through the public API with symbolic values, written by the real Synth.write_to "
    "(or cloned with the real Module.clone) and read back by the real reader; original and result are compared by the observable-state snapshot. "
    "Array payloads are symbolic element-wise at their element width."
)
BOUNDS = {
    "quick": {"types": "all 42 non-Output types, stand-alone synth context; clone() for 6 seeded types; project-vs-synth writer equality for 6 seeded types",
              "controllers/options": "as C01 (one seeded enum symbolic, one seeded unit member)", "arrays": "all elements symbolic for length <= 32; 8 positions {0,1,127,128,254,255,last,seeded} for 128/256/257-element arrays",
              "vorbis": "byte strings of length 0..4, every byte symbolic", "FMX custom waveform": "12 concrete float32 edge values (enumeration, not solver: struct float packing is realised)"},
    "thorough": {"types": "all 42 in synth context and clone()", "arrays": "16 seeded positions per long array, vorbis length 0..8", "controllers/options": "every enum symbolic in turn, every unit member"},
}
OUTSIDE = ["array lengths other than the class's declared length", "float payload values beyond the listed constants", "MetaModule and Sampler payloads (C15, C16)",
           "x/y/layer/visualization in synth files (documented as not stored there)"]
ASSUMPTIONS = ["module flags contain the type's default flag bits", "drawn-waveform samples are int8 values"]

SYN_GROUPS = '("type", "common_synth", "midi", "ctl", "opt", "cmid", "payload")'


def ctx_code(ctx):
    if ctx == "synth":
        return "m2 = rt(Synth(mod)).module"
    if ctx == "clone":
        return "m2 = mod.clone()"
    raise ValueError(ctx)


def module_obs(tier, rnd, ctx, types, tag):
    obs = []
    for mt in types:
        only = ["volume", "input_module", "play_patterns", "bpm", "tpl"] if mt == "MetaModule" else None
        units = modgen.unit_controllers(mt)
        nvar = 1 if tier == "quick" or ctx != "synth" else max([len(ms) for ms in units.values()] or [1])
        for vi in range(nvar):
            uc = {u: (rnd.choice(ms) if nvar == 1 else ms[vi % len(ms)]) for u, ms in units.items()}
            items = modgen.items_controllers(mt, rnd=rnd, unit_choice=uc, only=only)
            if tier == "quick" or ctx != "synth":
                en = [i for i, it in enumerate(items) if it.forks > 2 and it.param is not None]
                keep = rnd.choice(en) if en else None
                for i in en:
                    if i != keep:
                        items[i].param = None
                        items[i].line = items[i].line.format(v=repr(items[i].concrete(rnd)))
                        items[i].concrete = None
            if vi == 0:
                items += modgen.items_options(mt, skip=("user_defined_controllers",))
                if mt != "MetaModule":
                    items += modgen.items_cmid(mt, rnd=rnd)
                items += modgen.items_common(mt, in_project=False)
                items += modgen.items_midi(mt)
            chunks = modgen.pack(items, max_forks=16, max_params=32)
            for ci, ch in enumerate(chunks):
                g = modgen.render(items, ch, rnd)
                fk_ = 1
                for i_ in ch:
                    fk_ *= max(1, items[i_].forks)
                body = f"""
    mod = {cls_expr(mt)}()
{g.code(4)}
    s1 = snap_module(mod, groups={SYN_GROUPS})
    {ctx_code(ctx)}
    s2 = snap_module(m2, groups={SYN_GROUPS})
    return same(s1, s2) and m2 is not mod
"""
                obs.append(Ob(f"{tag}.{mt}.v{vi}.s{ci}", build(g.params, body, setup=SETUP, extra_pre=g.pre),
                              f"{mt} {'wrapped in a synth, saved and loaded' if ctx == 'synth' else 'cloned'}: same type, controller values, options, MIDI bindings, common settings",
                              group=tag, shape=f"{ctx}({mt}); values not listed as symbolic hold seeded in-domain constants; " + "; ".join(g.notes),
                              symbolic=", ".join(p_[0] for p_ in g.params), timeout=max(240, min(900, 25 * fk_))))
    return obs


def positions(n, rnd, k):
    if n <= 32:
        return list(range(n))
    base = {0, 1, 127, 128, n - 2, n - 1, n // 2}
    base = {p for p in base if 0 <= p < n}
    while len(base) < k:
        base.add(rnd.randrange(n))
    return sorted(base)


ARRAYS = [  # type, attribute, element domain (lo, hi), struct width
    ("MultiSynth", "nv_curve", 0, 255), ("MultiSynth", "vv_curve", 0, 255), ("MultiSynth", "np_curve", 0, 65535),
    ("MultiCtl", "curve", 0, 65535), ("WaveShaper", "curve", 0, 65535),
    ("SpectraVoice", "harmonic_freqs", 0, 65535), ("SpectraVoice", "harmonic_volumes", 0, 255), ("SpectraVoice", "harmonic_widths", 0, 255),
]


def payload_obs(tier, rnd):
    from rv.modules import MODULE_CLASSES
    obs = []
    k = 8 if tier == "quick" else 16   # (32 measured inconclusive for MultiSynth.np_curve: the writer compares the list with its default, one fork per symbolic element, twice)
    for ctx in (("synth",) if tier == "quick" else ("synth", "clone")):
        for mt, attr, lo, hi in ARRAYS:
            cls = MODULE_CLASSES[mt]
            n = len(getattr(cls(), attr).values)
            pos = positions(n, rnd, k)
            params = [R(f"e{p}", lo, hi) for p in pos]
            sets = "\n".join(f"    mod.{attr}.values[{p}] = e{p}" for p in pos)
            p2 = pos[len(pos) // 2]
            body = f"""
    mod = {cls_expr(mt)}()
{sets}
    s1 = snap_module(mod, groups=("type", "payload"))
    {ctx_code(ctx)}
    if not same(s1, snap_module(m2, groups=("type", "payload"))):
        return False
    # the module has been serialised once; an in-place edit afterwards must be what the next save writes
    mod.{attr}.values[{p2}] = again
    s3 = snap_module(mod, groups=("type", "payload"))
    {ctx_code(ctx).replace("m2 =", "m4 =")}
    return same(s3, snap_module(m4, groups=("type", "payload"))) and m4.{attr}.values[{p2}] == again
"""
            params = params + [R("again", lo, hi)]
            obs.append(Ob(f"payload.{ctx}.{mt}.{attr}", build(params, body, setup=SETUP), f"{mt}.{attr} ({n} elements) survives {ctx} round trip element by element",
                          group="payload", shape=f"{ctx}({mt}); positions {pos if len(pos) <= 12 else str(pos[:12]) + '...'} symbolic, the rest default",
                          symbolic=f"{len(pos)} elements over {lo}..{hi}", timeout=240 if tier == "quick" else 480))
        # SpectraVoice harmonic types through the public Harmonic API (enum per harmonic: seeded members, one symbolic)
        sp = rnd.randrange(16)
        body = f"""
    mod = {cls_expr("SpectraVoice")}()
    HT = type(mod).HarmonicType
    mod.harmonics[{sp}].type = HT(t)
    mod.harmonics[{(sp + 5) % 16}].type = HT({rnd.choice([0, 1, 2, 3])})
    mod.harmonics[{sp}].freq_hz = f
    mod.harmonics[{sp}].volume = v
    mod.harmonics[{sp}].width = w
    s1 = snap_module(mod, groups=("type", "payload"))
    {ctx_code(ctx)}
    h2 = m2.harmonics[{sp}]
    return same(s1, snap_module(m2, groups=("type", "payload"))) and h2.freq_hz == f and h2.volume == v and h2.width == w and h2.type == HT(t)
"""
        nht = len(MODULE_CLASSES["SpectraVoice"].HarmonicType)
        obs.append(Ob(f"payload.{ctx}.SpectraVoice.harmonic", build([R("t", 0, nht - 1), U16("f"), U8("v"), U8("w")], body, setup=SETUP),
                      "a SpectraVoice harmonic set through the Harmonic API survives (type, frequency, volume, width)", group="payload",
                      shape=f"{ctx}(SpectraVoice), harmonic {sp}", symbolic="type over all members, freq u16, volume u8, width u8", timeout=240))
        # MultiCtl mappings
        mp = sorted({0, 15, rnd.randrange(16)})
        params = [U32(f"q{p}_{j}") for p in mp for j in range(8)]
        sets = "\n".join(f"    mod.mappings.values[{p}] = type(mod).Mapping(({', '.join(f'q{p}_{j}' for j in range(8))}))" for p in mp)
        body = f"""
    mod = {cls_expr("MultiCtl")}()
{sets}
    s1 = snap_module(mod, groups=("type", "payload"))
    {ctx_code(ctx)}
    return same(s1, snap_module(m2, groups=("type", "payload")))
"""
        obs.append(Ob(f"payload.{ctx}.MultiCtl.mappings", build(params, body, setup=SETUP), "MultiCtl mapping table (16 x 8 x u32) survives", group="payload",
                      shape=f"{ctx}(MultiCtl); mappings {mp} symbolic (8 fields each), the rest default", symbolic=f"{len(params)} u32 values", timeout=240))
        # drawn waveforms (32 x int8): each symbolic sample forks on its sign in the writer
        for mt in ("Generator", "Analog generator"):
            pos = sorted(rnd.sample(range(32), 3))
            others = {p: rnd.randint(-128, 127) for p in rnd.sample([q for q in range(32) if q not in pos], 6)}
            sets = "\n".join([f"    mod.drawn_waveform.samples[{p}] = w{p}" for p in pos] + [f"    mod.drawn_waveform.samples[{p}] = {v}" for p, v in others.items()])
            body = f"""
    mod = {cls_expr(mt)}()
{sets}
    s1 = snap_module(mod, groups=("type", "payload"))
    {ctx_code(ctx)}
    return same(s1, snap_module(m2, groups=("type", "payload")))
"""
            obs.append(Ob(f"payload.{ctx}.{mt}.drawn_waveform", build([I8(f"w{p}") for p in pos], body, setup=SETUP), f"{mt} drawn waveform (32 x int8) survives", group="payload",
                          shape=f"{ctx}({mt}); samples {pos} symbolic, {sorted(others)} seeded constants, the rest default", symbolic="3 samples over -128..127", timeout=240))
        # Vorbis data
        for n in ((0, 1, 4) if tier == "quick" else range(0, 9)):
            params = [U8(f"b{i}") for i in range(n)] or [U8("unused")]
            body = f"""
    mod = {cls_expr("Vorbis player")}()
    mod.data = bytes([{', '.join(f'b{i}' for i in range(n))}])
    s1 = snap_module(mod, groups=("type", "payload"))
    {ctx_code(ctx)}
    return same(s1, snap_module(m2, groups=("type", "payload")))
"""
            obs.append(Ob(f"payload.{ctx}.Vorbis.{n}", build(params, body, setup=SETUP), "Vorbis player data bytes survive", group="payload",
                          shape=f"{ctx}(Vorbis player), data length {n}", symbolic=f"{n} bytes", timeout=120))
    return obs


FLOATS = [0.0, -0.0, 1.0, -1.0, 0.5, 1e-45, 3.4028234663852886e38, -3.4028234663852886e38, 0.10000000149011612, 1.1754943508222875e-38, 0.333251953125, -0.75]


def concrete_obs():
    src = f'''from vf.prelude import *
from rv.modules import MODULE_CLASSES
from vf.invariants import *
import struct


def h():
    vals = {FLOATS!r}
    for ctx in ("synth", "clone"):
        mod = MODULE_CLASSES["FMX"]()
        for i, v in enumerate(vals):
            mod.custom_waveform.values[i * 20] = v
        m2 = rt(Synth(mod)).module if ctx == "synth" else mod.clone()
        a = [struct.pack("<f", x) for x in mod.custom_waveform.values]
        b = [struct.pack("<f", x) for x in m2.custom_waveform.values]
        if a != b:
            return False
    return True
'''
    o1 = Ob("concrete.fmx.floats", src, "FMX custom waveform floats (12 float32 edge values) survive synth round trip and clone bit-exactly", engine="C", group="payload",
            shape="enumeration of 12 constants (struct float packing is realised by CrossHair; not a solver obligation)")
    src2 = '''from vf.prelude import *
from rv.errors import EmptySynthError


def h():
    f = FILE()
    try:
        Synth(None).write_to(f)
    except EmptySynthError:
        return len(f.getvalue()) == 0
    return False
'''
    o2 = Ob("concrete.empty_synth", src2, "a synth without a module refuses to serialize (EmptySynthError) and writes nothing", engine="C", group="empty")
    return [o1, o2]


def writer_split_obs(tier, rnd, types):
    """Project.chunks() and Synth.chunks() duplicate the CVAL/CMID/CHNK emission: the byte sequence
    from the first CVAL to the module's SEND must be identical for the same module."""
    obs = []
    for mt in types:
        items = modgen.items_controllers(mt, rnd=rnd, only=["volume", "input_module", "play_patterns", "bpm", "tpl"] if mt == "MetaModule" else None, enums_symbolic=False)
        items += modgen.items_options(mt, skip=("user_defined_controllers",))
        chs = modgen.pack(items, max_forks=8, max_params=24)
        if not chs:
            continue
        ch = chs[0]
        g = modgen.render(items, ch, rnd)
        body = f"""
    mod = {cls_expr(mt)}()
{g.code(4)}
    a = save_bytes(Synth(mod))
    p = Project()
    p.attach_module(mod)
    b = save_bytes(p)
    ia = find_chunk(a, b"CVAL")
    ib = find_chunk(b, b"CVAL", find_chunk(b, b"STYP"))
    if ia < 0 or ib < 0:
        return False
    return a[ia:] == b[ib:]
"""
        setup = SETUP + '''
def find_chunk(data, cid, start=0):
    """offset of the first chunk with id `cid` at or after chunk-aligned offset `start` (walks the chunk framing)"""
    o = start
    n = len(data)
    while o + 8 <= n:
        if data[o:o + 4] == cid:
            return o
        o += 8 + int.from_bytes(data[o + 4:o + 8], "little")
    return -1
'''
        obs.append(Ob(f"split.{mt}", build(g.params, body, setup=setup), f"{mt}: controller values, bindings and module-specific chunks are emitted identically by the project writer and the synth writer",
                      group="split", shape=f"{mt} stand-alone vs as last module of a project", symbolic=", ".join(p_[0] for p_ in g.params), timeout=240))
    return obs


def exclusive_obs(tier, rnd):
    """options declared mutually exclusive: assignment order decides which one is on (assigning either clears its partner), so the
    per-type obligations above, which assign every option once in table order, never hold the FIRST member of a pair on.  Here the
    last two assignments are symbolic (which member, which value): every reachable on/off state of the pair goes through the round trip."""
    from rv.modules import MODULE_CLASSES
    obs = []
    for mt, cls in MODULE_CLASSES.items():
        done = set()
        for n, o in getattr(cls, "options", {}).items():
            for other in o.exclusive_of:
                key = tuple(sorted((n, other)))
                if key in done:
                    continue
                done.add(key)
                a, b_ = key
                for ctx in ("synth", "clone"):
                    body = f"""
    mod = {cls_expr(mt)}()
    for which, val in ((w1, x1), (w2, x2)):
        if which:
            mod.{a} = val
        else:
            mod.{b_} = val
    s1 = snap_module(mod, groups={SYN_GROUPS})
    {ctx_code(ctx)}
    return same(s1, snap_module(m2, groups={SYN_GROUPS})) and m2.{a} == mod.{a} and m2.{b_} == mod.{b_}
"""
                    obs.append(Ob(f"exclusive.{ctx}.{mt}.{a}", build([B("w1"), B("x1"), B("w2"), B("x2")], body, setup=SETUP),
                                  f"{mt}: every state of the mutually exclusive options {a} / {b_} reachable by two assignments (the state depends on the last assignment to each member only) survives the {ctx} round trip with all other settings",
                                  group=ctx, shape=f"{ctx}({mt}), two assignments to the pair", symbolic="which option and which value, twice", timeout=240))
    return obs


def obligations(tier, seed):
    rnd = random.Random(seed)
    types = attachable_types()
    obs = module_obs(tier, rnd, "synth", types, "synth")
    obs += module_obs(tier, rnd, "clone", types if tier == "thorough" else rnd.sample(types, 6), "clone")
    obs += payload_obs(tier, rnd)
    obs += writer_split_obs(tier, rnd, types if tier == "thorough" else rnd.sample([t for t in types if t not in ("MetaModule", "Sampler")], 6))
    obs += exclusive_obs(tier, rnd)
    obs += concrete_obs()
    return obs
