#!/venv/bin/python
# Replay of a solver counterexample against the real library: no CrossHair, no stubs, real io.BytesIO.
# property C09  obligation range.stale.MultiCtl.value
# MultiCtl, controllers ['value', 'gain', 'quantization', 'out_offset', 'response', 'sample_rate']: whatever integer w the module already stores (leniently stored values may be out of range), a strict assignment of v is accepted iff min <= v <= max, otherwise ControllerValueError and the stored value remains
# exit 1 = the property fails for this input on the current /repo tree; exit 0 = it holds.
import os, sys
os.environ["VF_REPLAY"] = "1"
sys.path.insert(0, "/verif")
ARGS = (-1, -1)
KWARGS = {}
HARNESS = 'from vf.prelude import *\nfrom rv.modules import MODULE_CLASSES\nfrom rv.errors import ControllerValueError, override_raise_controller_value_errors\nCLS = MODULE_CLASSES[\'MultiCtl\']\n\n\ndef h(w: int, v: int) -> bool:\n    """\n    post: _\n    """\n    mod = CLS()\n    with override_raise_controller_value_errors(False):\n        mod.value = w\n    before = mod.value\n    try:\n        mod.value = v\n    except ControllerValueError:\n        if 0 <= v <= 32768 or mod.value != before:\n            return False\n    else:\n        if not (0 <= v <= 32768) or mod.value != v:\n            return False\n    with override_raise_controller_value_errors(False):\n        mod.gain = w\n    before = mod.gain\n    try:\n        mod.gain = v\n    except ControllerValueError:\n        if 0 <= v <= 1024 or mod.gain != before:\n            return False\n    else:\n        if not (0 <= v <= 1024) or mod.gain != v:\n            return False\n    with override_raise_controller_value_errors(False):\n        mod.quantization = w\n    before = mod.quantization\n    try:\n        mod.quantization = v\n    except ControllerValueError:\n        if 0 <= v <= 32768 or mod.quantization != before:\n            return False\n    else:\n        if not (0 <= v <= 32768) or mod.quantization != v:\n            return False\n    with override_raise_controller_value_errors(False):\n        mod.out_offset = w\n    before = mod.out_offset\n    try:\n        mod.out_offset = v\n    except ControllerValueError:\n        if -16384 <= v <= 16384 or mod.out_offset != before:\n            return False\n    else:\n        if not (-16384 <= v <= 16384) or mod.out_offset != v:\n            return False\n    with override_raise_controller_value_errors(False):\n        mod.response = w\n    before = mod.response\n    try:\n        mod.response = v\n    except ControllerValueError:\n        if 0 <= v <= 1000 or mod.response != before:\n            return False\n    else:\n        if not (0 <= v <= 1000) or mod.response != v:\n            return False\n    with override_raise_controller_value_errors(False):\n        mod.sample_rate = w\n    before = mod.sample_rate\n    try:\n        mod.sample_rate = v\n    except ControllerValueError:\n        if 1 <= v <= 32768 or mod.sample_rate != before:\n            return False\n    else:\n        if not (1 <= v <= 32768) or mod.sample_rate != v:\n            return False\n    return True\n\n\ndef h__reach(w: int, v: int) -> bool:\n    """\n    post: _\n    """\n    h(w, v)\n    return False\n'
ns = {"__name__": "vf_replay"}
exec(compile(HARNESS, "<harness range.stale.MultiCtl.value>", "exec"), ns)
try:
    ok = ns['h'](*ARGS, **KWARGS)
except Exception as e:
    import traceback; traceback.print_exc()
    print("replay: raised", type(e).__name__, e)
    sys.exit(1)
print("replay: h(*%r, **%r) returned %r" % (ARGS, KWARGS, ok))
sys.exit(0 if ok else 1)
