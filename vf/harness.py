"""Obligation records and the harness-source builder.

A harness is a Python module text:

    from vf.prelude import *
    <setup lines>
    def h(a: int, b: bool, ...) -> bool:
        '''
        pre: <domain of every symbolic input>
        post: _
        '''
        <body>  (ends in `return <property as a boolean>`)
    def h__reach(...):   # reachability twin: must come back *violated*
        h(...); return False
"""
from __future__ import annotations

import textwrap
from dataclasses import dataclass, field
from typing import List, Optional, Sequence, Tuple


@dataclass
class Ob:
    oid: str  # obligation id, unique inside the property
    src: str  # harness module text (engine "S"), or a dict for other engines
    desc: str  # what is asserted, one line
    group: str = ""  # field group (known findings are keyed on oid/group)
    shape: str = ""  # the concrete shape this obligation fixes
    symbolic: str = ""  # what is symbolic, and over which width
    timeout: int = 60
    engine: str = "S"  # S = CrossHair/z3 on the real code, F = AST->SMT-LIB, C = concrete side condition
    func: str = "h"
    payload: dict = field(default_factory=dict)  # engine-specific


P = Tuple[str, str, str]  # (name, type, precondition or "")


def rng(name, lo, hi):
    return f"{lo} <= {name} <= {hi}"


def U8(n):
    return (n, "int", f"0 <= {n} <= 255")


def U16(n):
    return (n, "int", f"0 <= {n} <= 65535")


def U32(n):
    return (n, "int", f"0 <= {n} <= 4294967295")


def I32(n):
    return (n, "int", f"-2147483648 <= {n} <= 2147483647")


def I8(n):
    return (n, "int", f"-128 <= {n} <= 127")


def R(n, lo, hi):
    return (n, "int", f"{lo} <= {n} <= {hi}")


def B(n):
    return (n, "bool", "")


def INT(n):
    """unbounded mathematical integer"""
    return (n, "int", "")


def build(
    params: Sequence[P],
    body: str,
    setup: str = "",
    extra_pre: Sequence[str] = (),
    raises: Sequence[str] = (),
) -> str:
    """Return harness module text.  `body` is dedented and indented by 4."""
    sig = ", ".join(f"{n}: {t}" for n, t, _ in params)
    call = ", ".join(n for n, _, _ in params)
    pres = [p for _, _, p in params if p] + list(extra_pre)
    # keep each pre line reasonably short: crosshair evaluates them in order
    pre_lines = []
    cur = []
    for p in pres:
        cur.append(p)
        if len(cur) >= 6:
            pre_lines.append(" and ".join(f"({x})" for x in cur))
            cur = []
    if cur:
        pre_lines.append(" and ".join(f"({x})" for x in cur))
    doc = "".join(f"    pre: {l}\n" for l in pre_lines)
    if raises:
        doc += "    raises: " + ", ".join(raises) + "\n"
    doc += "    post: _\n"
    body = textwrap.indent(textwrap.dedent(body).strip("\n"), "    ")
    setup = textwrap.dedent(setup).strip("\n")
    return (
        "from vf.prelude import *\n"
        + (setup + "\n" if setup else "")
        + f"\n\ndef h({sig}) -> bool:\n"
        + f'    """\n{doc}    """\n'
        + body
        + f"\n\n\ndef h__reach({sig}) -> bool:\n"
        + f'    """\n{doc}    """\n'
        + f"    h({call})\n    return False\n"
    )


def with_extra_pre(src: str, extra: str) -> str:
    """Insert an extra precondition line into both h and h__reach (used to exclude the region
    of a known finding and look for *other* violations of the same obligation)."""
    return src.replace("    post: _\n", f"    pre: {extra}\n    post: _\n")
