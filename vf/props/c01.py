"""C01 — project save/load round trip preserves the whole project."""
import random

from vf import modgen
from vf.harness import B, I32, R, U8, U16, U32, Ob, build
from vf.modgen import SETUP, attachable_types, cls_expr

EXPLANATION = (
    "C01: real Project.write_to -> PyFile -> real read_sunvox_file, original and loaded objects compared by the observable-state "
    "snapshot of vf/invariants.py, field group by field group.  Shapes are concrete (module type, slots, pattern list, lines x tracks), "
    "every value of a shape is symbolic over its documented width."
)
BOUNDS = {
    "quick": {"module types": "all 42 attachable types, project [Output, T] with T -> Output", "per type": "every range/bool controller over its whole range, every option, CMID channel/parameter for <= 6 controllers; one enum controller symbolic (seeded), the rest concrete members; one unit member (seeded) for unit-dependent ranges",
              "common/midi header fields": "4 seeded types + full widths of every field", "slots": "module lists of length <= 4 with every subset of positions 1..3 empty",
              "patterns": "pattern lists <= 3 over {pattern, clone, empty}; cells 1x1..2x2", "names": "prefix of 0/30/31 ASCII + <= 2 free code points"},
    "thorough": {"module types": "all 42, every enum controller symbolic in turn, every unit member", "common/midi header fields": "all 42 types",
                 "slots": "as quick", "patterns": "cells up to 3x3", "names": "as quick plus prefix 29"},
}
OUTSIDE = ["more than 4 modules / 3 patterns per project in one file", "names with more than 2 free characters after the fixed prefix",
           "two enum controllers symbolic at the same time", "link graphs (decided under C08)", "type-specific payloads (C02, C15, C16)"]
ASSUMPTIONS = ["module flags contain the type's default flag bits (the loader ORs them in; they describe the module type)",
               "text excludes NUL and lone surrogates", "project.sunvox_version >= 1.9.5.0 when patterns carry module numbers > 255 (older versions are a documented legacy fix-up, C04)"]



def _fit32():
    # expected stored module name: longest prefix whose UTF-8 form fits 32 bytes
    return '''
def fit32(s):
    out = ""
    n = 0
    for ch in s:
        k = len(ch.encode("utf8"))
        if n + k > 32:
            break
        out += ch
        n += k
    return out
'''


HDR_FIELDS = [
    ("flags", U32), ("initial_bpm", U32), ("initial_tpl", U32), ("time_grid", U32), ("time_grid2", U32), ("global_volume", U32),
    ("modules_scale", U32), ("modules_zoom", U32), ("modules_x_offset", I32), ("modules_y_offset", I32), ("modules_layer_mask", U32),
    ("modules_current_layer", U32), ("timeline_position", I32), ("restart_position", I32), ("selected_module", U32),
    ("selected_generator", I32), ("current_pattern", U32), ("current_track", U32), ("current_line", U32),
]


def header_obs():
    obs = []
    groups = [
        ("unsigned", [(n, k) for n, k in HDR_FIELDS if k is U32], True),
        ("signed_a", [("modules_x_offset", I32), ("modules_y_offset", I32), ("selected_generator", I32)], False),
        ("signed_b", [("timeline_position", I32), ("restart_position", I32)], False),
    ]
    for gname, fields, extra in groups:
        params = [k(n) for n, k in fields]
        sets = "\n".join(f"    p.{n} = {n}" for n, _ in fields)
        more = ""
        tail = ""
        if extra:
            params += [R("sm", 0, 7), R("so", 0, 7)] + [U8(f"bv{i}") for i in range(4)] + [U8(f"sv{i}") for i in range(4)]
            more = "    p.receive_sync_midi = sm\n    p.receive_sync_other = so\n    p.based_on_version = (bv0, bv1, bv2, bv3)\n    p.sunvox_version = (sv0, sv1, sv2, sv3)\n"
            tail = " and tuple(q.loaded_sunvox_version) == (sv0, sv1, sv2, sv3)"
        body = f"""
    p = Project()
{sets}
{more}
    s1 = snap_project(p)
    q = rt(p)
    s2 = snap_project(q)
    return same(s1, s2){tail}
"""
        obs.append(Ob(f"hdr.{gname}", build(params, body, setup=SETUP), "project header fields survive save/load" + (" (and VERS comes back as the loaded version)" if extra else ""),
                      group="header", shape="Project() with only the Output module",
                      symbolic=", ".join(n for n, _ in fields) + (" at u32; both sync fields 0..7; 2 x 4 version bytes" if extra else " at i32"), timeout=180))
    return obs


CP = "(1 <= {v} <= 0xD7FF or 0xE000 <= {v} <= 0x10FFFF)"


def name_obs(tier):
    obs = []
    for k in ((0, 30, 31) if tier == "quick" else (0, 28, 29, 30, 31)):
        body = f"""
            name = {'a' * k!r} + chr(c1) + {"chr(c2)" if k in (29, 30) else "'z' * (1 + c2 % 2)"}
            p = Project()
            a = p.new_module(MODULE_CLASSES["Amplifier"], name=name)
            q = rt(p)
            return q.modules[1].name == fit32(name) and len(q.modules) == 2
            """
        obs.append(Ob(f"name.module.{k}", build([("c1", "int", CP.format(v="c1")), ("c2", "int", CP.format(v="c2"))], body, setup=SETUP + _fit32()),
                      "a module name survives up to the documented limit (longest prefix whose UTF-8 form fits 32 bytes) and the written file loads",
                      group="name", shape=f"{k} ASCII characters + 2 free code points", symbolic="2 arbitrary Unicode code points (no NUL, no surrogate)", timeout=240))
    for k, what in ((0, "project"), (3, "project"), (0, "pattern"), (0, "midi_out")):
        if what == "project":
            setn, getn = "p.name = name", "q.name == name"
        elif what == "pattern":
            setn, getn = "p.attach_pattern(Pattern(lines=1, tracks=1, name=name))", "q.patterns[0].name == name"
        else:
            setn, getn = "p.output.midi_out_name = name", "q.modules[0].midi_out_name == name"
        body = f"""
            name = {'P' * k!r} + chr(c1) + chr(c2)
            p = Project()
            {setn}
            q = rt(p)
            return {getn}
            """
        obs.append(Ob(f"name.{what}.{k}", build([("c1", "int", CP.format(v="c1")), ("c2", "int", CP.format(v="c2"))], body, setup=SETUP),
                      f"{what} name (NUL-terminated, unbounded) survives save/load",
                      group="name", shape=f"{k} ASCII characters + 2 free code points", symbolic="2 arbitrary Unicode code points (no NUL, no surrogate)", timeout=240))
    return obs


def module_obs(tier, rnd):
    obs = []
    types = attachable_types()
    for mt in types:
        only = ["volume", "input_module", "play_patterns", "bpm", "tpl"] if mt == "MetaModule" else None
        units = modgen.unit_controllers(mt)
        nvar = 1 if tier == "quick" else max([len(ms) for ms in units.values()] or [1])
        for vi in range(nvar):
            uc = {u: (rnd.choice(ms) if tier == "quick" else ms[vi % len(ms)]) for u, ms in units.items()}
            items = modgen.items_controllers(mt, rnd=rnd, unit_choice=uc, only=only)
            if tier == "quick":
                # one enum controller symbolic (seeded), the others concrete members
                en = [i for i, it in enumerate(items) if it.forks > 2 and it.param is not None]
                keep = rnd.choice(en) if en else None
                for i in en:
                    if i != keep:
                        items[i].param = None
                        items[i].line = items[i].line.format(v=repr(items[i].concrete(rnd)))
                        items[i].concrete = None
            if vi == 0:
                items += modgen.items_options(mt, skip=("user_defined_controllers",))
                if mt != "MetaModule":
                    items += modgen.items_cmid(mt, rnd=rnd)
            chunks = modgen.pack(items, max_forks=16, max_params=32)
            for ci, ch in enumerate(chunks):
                g = modgen.render(items, ch, rnd)
                fk_ = 1
                for i_ in ch:
                    fk_ *= max(1, items[i_].forks)
                body = f"""
    p = Project()
    mod = p.new_module({cls_expr(mt)})
{g.code(4)}
    mod >> p.output
    s1 = snap_project(p, groups=("modules",), module_groups=("type", "ctl", "opt", "cmid", "links"))
    q = rt(p)
    s2 = snap_project(q, groups=("modules",), module_groups=("type", "ctl", "opt", "cmid", "links"))
    return same(s1, s2)
"""
                obs.append(Ob(f"mod.{mt}.v{vi}.s{ci}", build(g.params, body, setup=SETUP, extra_pre=g.pre),
                              f"{mt} inside a project: type, every controller value, every option, controller MIDI bindings and the link to Output survive save/load",
                              group="ctl", shape=f"Project[Output, {mt}], {mt} -> Output; values not listed as symbolic hold seeded in-domain constants; " + "; ".join(g.notes),
                              symbolic=", ".join(p_[0] for p_ in g.params), timeout=max(240, min(900, 25 * fk_))))
    # common header + midi fields: type-independent code, decided for a few types (quick) / all (thorough)
    sel = ["Amplifier", "Output"] + rnd.sample([t for t in types if t != "Amplifier"], 2) if tier == "quick" else ["Output"] + types
    for mt in sel:
        for grp, gen in (("common", modgen.items_common), ("midi", modgen.items_midi)):
            items = gen(mt)
            for ci, ch in enumerate(modgen.pack(items, max_forks=8, max_params=32)):
                g = modgen.render(items, ch, rnd)
                mk = "mod = p.output" if mt == "Output" else f"mod = p.new_module({cls_expr(mt)})"
                body = f"""
    p = Project()
    {mk}
{g.code(4)}
    s1 = snap_project(p, groups=("modules",), module_groups=("type", {grp!r}))
    q = rt(p)
    s2 = snap_project(q, groups=("modules",), module_groups=("type", {grp!r}))
    return same(s1, s2)
"""
                obs.append(Ob(f"mod.{mt}.{grp}.s{ci}", build(g.params, body, setup=SETUP), f"{mt}: the {grp} module settings survive save/load at their documented widths",
                              group=grp, shape=f"Project[Output{'' if mt == 'Output' else ', ' + mt}]", symbolic=", ".join(p_[0] for p_ in g.params) + " at their documented widths", timeout=180))
    return obs


def slot_obs(tier, rnd):
    obs = []
    # positions 1..3 of a 4-slot module list: each either a module (seeded type) or empty
    types = [t for t in attachable_types() if t not in ("MetaModule", "Sampler", "FMX")]
    for mask in range(8):
        kinds = [rnd.choice(types) if mask >> i & 1 else None for i in range(3)]
        lines = []
        params = []
        signed_used = False
        for i, k in enumerate(kinds, 1):
            if k is None:
                lines.append("p.attach_module(None)")
            else:
                params += [U32(f"sc{i}"), U8(f"r{i}")]
                # on Smooth the keyword `scale` is the CONTROLLER of that name (range 0..400), not the common module setting
                # (the collision recorded as known finding smooth-scale-collision under C09/C05): not what this obligation is about
                from rv.modules import MODULE_CLASSES as _MC
                scale_kw = f"scale=sc{i}, " if "scale" not in _MC[k].controllers else ""
                if not signed_used:
                    params.append(I32(f"x{i}"))
                    lines.append(f"p.attach_module({cls_expr(k)}(x=x{i}, {scale_kw}color=(r{i}, 1, 2)))")
                    signed_used = True
                else:
                    lines.append(f"p.attach_module({cls_expr(k)}({scale_kw}color=(r{i}, 1, 2)))")
        if not params:
            params = [I32("x0")]
            lines.append("p.output.x = x0")
        code = "\n".join("    " + l for l in lines)
        body = f"""
    p = Project()
{code}
    q = rt(p)
    a = list(p.modules)
    while a and a[-1] is None:
        a.pop()
    if len(q.modules) != len(a):
        return False
    for i in range(len(a)):
        if (a[i] is None) != (q.modules[i] is None):
            return False
        if a[i] is not None and not same(snap_module(a[i], groups=("type", "common")), snap_module(q.modules[i], groups=("type", "common"))):
            return False
        if a[i] is not None and q.modules[i].index != i:
            return False
    return True
"""
        obs.append(Ob(f"slots.{mask:03b}", build(params, body, setup=SETUP), "module positions (including empty ones) are preserved, trailing empties dropped",
                      group="slots", shape="modules = [Output, " + ", ".join(k or "empty" for k in kinds) + "]", symbolic="scale (u32) and one colour byte of every present module, x (i32) of the first", timeout=120))
    return obs


def pattern_obs(tier, rnd):
    from vf.props.c12 import _notecmd_pre, _valid_notes
    obs = []
    valid = _valid_notes()
    shapes = [(1, 1), (2, 2)] if tier == "quick" else [(1, 1), (1, 2), (2, 2), (3, 3)]
    # pattern list layouts over {P = pattern, C = clone of pattern 0, E = empty}
    layouts = ["P", "PC", "PE", "EP", "PCE", "PEC", "EPP"] if tier == "quick" else ["P", "PC", "PE", "EP", "PCE", "PEC", "EPP", "PPP", "PCC", "EEP"]
    for li, lay in enumerate(layouts):
        L, T = shapes[li % len(shapes)]
        params = []
        lines = []
        signed_at = rnd.choice([i for i, k in enumerate(lay) if k != "E"])  # the one element whose signed x/y are symbolic
        for i, k in enumerate(lay):
            if k == "E":
                lines.append("p.attach_pattern(None)")
            elif k == "C":
                params += [U32(f"src{i}"), U32(f"cf{i}")]
                if i == signed_at:
                    params += [I32(f"cx{i}"), I32(f"cy{i}")]
                    xy = f"x=cx{i}, y=cy{i}"
                else:
                    xy = f"x={rnd.randint(-2**31, 2**31 - 1)}, y={rnd.randint(-2**31, 2**31 - 1)}"
                lines.append(f"p.attach_pattern(PatternClone(source=src{i}, {xy}, flags_PFFF=cf{i}))")
            else:
                ncell = L * T
                cells = []
                for c in range(ncell):
                    params += [R(f"v{i}_{c}", 0, 129), U16(f"m{i}_{c}"), U16(f"c{i}_{c}"), U16(f"w{i}_{c}")]
                    cells.append(f"Note(note=NOTECMD({rnd.choice(valid)}), vel=v{i}_{c}, module=m{i}_{c}, ctl=c{i}_{c}, val=w{i}_{c})")
                params += [U32(f"pf{i}"), U32(f"pg{i}"), U32(f"ys{i}")] + [U8(f"col{i}_{j}") for j in range(6)] + [U8(f"ic{i}_{j}") for j in (0, 31)]
                if i == signed_at:
                    params += [I32(f"px{i}"), I32(f"py{i}")]
                    xy = f"x=px{i}, y=py{i}"
                else:
                    xy = f"x={rnd.randint(-2**31, 2**31 - 1)}, y={rnd.randint(-2**31, 2**31 - 1)}"
                lines.append(f"pat{i} = Pattern(lines={L}, tracks={T}, {xy}, flags_PFFF=pf{i}, flags_PFLG=pg{i}, y_size=ys{i}, "
                             f"fg_color=(col{i}_0, col{i}_1, col{i}_2), bg_color=(col{i}_3, col{i}_4, col{i}_5), icon=bytes([ic{i}_0] + [7] * 30 + [ic{i}_31]))")
                lines.append(f"_cells{i} = [{', '.join(cells)}]")
                lines.append(f"pat{i}.set_via_fn(lambda pat, l, t: _cells{i}[l * {T} + t])")
                lines.append(f"p.attach_pattern(pat{i})")
        code = "\n".join("    " + l for l in lines)
        body = f"""
    p = Project()
{code}
    s1 = snap_project(p, groups=("patterns",))
    q = rt(p)
    s2 = snap_project(q, groups=("patterns",))
    return same(s1, s2)
"""
        obs.append(Ob(f"pat.{lay}.{L}x{T}", build(params, body, setup=SETUP), "the pattern list (patterns, clones, empty positions) survives save/load with identical cells and settings",
                      group="patterns", shape=f"patterns = {list(lay)} (P pattern {L}x{T}, C clone, E empty); note commands seeded members; x/y symbolic for element {signed_at}, seeded constants elsewhere",
                      symbolic="every cell's vel/module/ctl/val, flags, y_size, colours, 2 icon bytes, clone source/flags, x/y (i32) of one element", timeout=300))
    # every NOTECMD member through a project file (one symbolic command per obligation)
    for (L, T) in ([(2, 2)] if tier == "quick" else [(1, 1), (2, 2), (3, 3)]):
        ncell = L * T
        sc = rnd.randrange(ncell)
        cells = [f"Note(note=NOTECMD(n), vel=vel, module=mo, ctl=ct, val=va)" if c == sc else f"Note(note=NOTECMD({rnd.choice(valid)}), vel={rnd.randint(0, 129)})" for c in range(ncell)]
        body = f"""
    p = Project()
    pat = Pattern(lines={L}, tracks={T})
    _cells = [{', '.join(cells)}]
    pat.set_via_fn(lambda pat, l, t: _cells[l * {T} + t])
    p.attach_pattern(pat)
    s1 = snap_project(p, groups=("patterns",))
    q = rt(p)
    return same(s1, snap_project(q, groups=("patterns",)))
"""
        obs.append(Ob(f"pat.cmd.{L}x{T}", build([("n", "int", _notecmd_pre("n")), R("vel", 0, 129), U16("mo"), U16("ct"), U16("va")], body, setup=SETUP),
                      "a cell holding any NOTECMD member survives save/load inside a project", group="patterns", shape=f"one pattern {L}x{T}, cell {sc} symbolic",
                      symbolic="note over every NOTECMD member, vel 0..129, module/ctl/val u16", timeout=450))
    return obs


def obligations(tier, seed):
    rnd = random.Random(seed)
    obs = header_obs()
    obs += name_obs(tier)
    obs += module_obs(tier, rnd)
    obs += slot_obs(tier, rnd)
    obs += pattern_obs(tier, rnd)
    return obs
