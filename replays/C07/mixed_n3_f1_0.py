#!/venv/bin/python
# Replay of a solver counterexample against the real library: no CrossHair, no stubs, real io.BytesIO.
# property C07  obligation mixed.n3.f1.0
# a list operand with repeated modules and individually ~-marked entries is processed pair by pair in order; tables stay consistent and the edge set is what the sequence asks for
# exit 1 = the property fails for this input on the current /repo tree; exit 0 = it holds.
import os, sys
os.environ["VF_REPLAY"] = "1"
sys.path.insert(0, "/verif")
ARGS = (2, 0, True, 0, False, 1, False)
KWARGS = {}
HARNESS = 'from vf.prelude import *\nfrom rv.modules import MODULE_CLASSES\nfrom rv.modules.module import ModuleList\nfrom rv.errors import ModuleOwnershipError\nfrom vf.invariants import links_ok, edges, edges_out\n\n\ndef sel(mods, mask):\n    out = []\n    for i in range(len(mods)):\n        if (mask // (2 ** i)) % 2 == 1:\n            out.append(mods[i])\n    return out\n\n\ndef request(p, mods, E, fs, ts, disc, form):\n    """apply one request through the real API and to the specification set E"""\n    F = sel(mods, fs)\n    T = sel(mods, ts)\n    if form == 0:\n        # method call; `~` marks a disconnect request (on the source side here)\n        Fa = [~x for x in F] if disc else F\n        p.connect(Fa[0] if len(Fa) == 1 else Fa, T[0] if len(T) == 1 else T)\n    elif form == 1:\n        # F >> T ; disconnect marked on the right operand\n        left = F[0] if len(F) == 1 else ModuleList(p, F)\n        Ta = [~x for x in T] if disc else T\n        left >> (Ta[0] if len(Ta) == 1 else Ta)\n    else:\n        # T << F ; disconnect marked on the right operand\n        left = T[0] if len(T) == 1 else ModuleList(p, T)\n        Fa = [~x for x in F] if disc else F\n        left << (Fa[0] if len(Fa) == 1 else Fa)\n    for f in F:\n        for t in T:\n            if disc:\n                E.discard((f.index, t.index))\n            else:\n                E.add((f.index, t.index))\n\n\ndef good(p, E):\n    return links_ok(p) and edges(p) == E and edges_out(p) == E\nPF, PT = 2, 4\n\n\ndef h(s_: int, e0: int, d0: bool, e1: int, d1: bool, e2: int, d2: bool) -> bool:\n    """\n    pre: (0 <= s_ <= 2) and (0 <= e0 <= 2) and (0 <= e1 <= 2) and (0 <= e2 <= 2)\n    post: _\n    """\n    p = Project()\n    mods = [p.output] + [p.new_module(MODULE_CLASSES["Amplifier"]) for _ in range(2)]\n    E = set()\n    request(p, mods, E, PF, PT, False, 0)\n    if not good(p, E):\n        return False\n    src = mods[s_]\n    ent = [(e0, d0), (e1, d1), (e2, d2)][:3]\n    lst = [(~mods[e]) if d else mods[e] for e, d in ent]\n    form = 1\n    if form == 0:\n        p.connect(src, lst)\n    elif form == 1:\n        src >> lst\n    else:\n        # the list on the source side\n        p.connect(lst, src)\n    for e, d in ent:\n        pair = (src.index, mods[e].index) if form < 2 else (mods[e].index, src.index)\n        if d:\n            E.discard(pair)\n        else:\n            E.add(pair)\n    return good(p, E)\n\n\ndef h__reach(s_: int, e0: int, d0: bool, e1: int, d1: bool, e2: int, d2: bool) -> bool:\n    """\n    pre: (0 <= s_ <= 2) and (0 <= e0 <= 2) and (0 <= e1 <= 2) and (0 <= e2 <= 2)\n    post: _\n    """\n    h(s_, e0, d0, e1, d1, e2, d2)\n    return False\n'
ns = {"__name__": "vf_replay"}
exec(compile(HARNESS, "<harness mixed.n3.f1.0>", "exec"), ns)
try:
    ok = ns['h'](*ARGS, **KWARGS)
except Exception as e:
    import traceback; traceback.print_exc()
    print("replay: raised", type(e).__name__, e)
    sys.exit(1)
print("replay: h(*%r, **%r) returned %r" % (ARGS, KWARGS, ok))
sys.exit(0 if ok else 1)
