import rv.api
import chplug
from typing import List
from rv.api import Project, m

def _live(links):
    return [x for x in links if x != -1]

def inv_ok(mods) -> bool:
    n = len(mods)
    for t, mod in enumerate(mods):
        if len(mod.in_links) != len(mod.in_link_slots): return False
        if len(mod.out_links) != len(mod.out_link_slots): return False
        seen = []
        for i in range(len(mod.in_links)):
            f = mod.in_links[i]; j = mod.in_link_slots[i]
            if f == -1:
                if j != -1: return False
                continue
            if not (0 <= f < n) or f in seen: return False
            seen.append(f)
            src = mods[f]
            if not (0 <= j < len(src.out_links)): return False
            if src.out_links[j] != t or src.out_link_slots[j] != i: return False
        seen = []
        for j in range(len(mod.out_links)):
            d = mod.out_links[j]; i = mod.out_link_slots[j]
            if d == -1:
                if i != -1: return False
                continue
            if not (0 <= d < n) or d in seen: return False
            seen.append(d)
            dst = mods[d]
            if not (0 <= i < len(dst.in_links)): return False
            if dst.in_links[i] != t or dst.in_link_slots[i] != j: return False
    return True

def edges(mods):
    return sorted((f, t) for t, mod in enumerate(mods) for f in mod.in_links if f != -1)

def step(il0: List[int], is0: List[int], ol0: List[int], os0: List[int],
         il1: List[int], is1: List[int], ol1: List[int], os1: List[int], disc: bool) -> bool:
    """
    pre: len(il0) <= 2 and len(ol0) <= 2 and len(il1) <= 2 and len(ol1) <= 2
    pre: len(is0) == len(il0) and len(os0) == len(ol0) and len(is1) == len(il1) and len(os1) == len(ol1)
    post: _
    """
    p = Project()
    a = p.new_module(m.Amplifier)
    mods = p.modules
    mods[0].in_links, mods[0].in_link_slots, mods[0].out_links, mods[0].out_link_slots = il0, is0, ol0, os0
    mods[1].in_links, mods[1].in_link_slots, mods[1].out_links, mods[1].out_link_slots = il1, is1, ol1, os1
    if not inv_ok(mods):
        return True
    before = edges(mods)
    if disc:
        p.connect(~a, p.output)
        want = [e for e in before if e != (1, 0)]
    else:
        p.connect(a, p.output)
        want = sorted(set(before + [(1, 0)]))
    return inv_ok(mods) and edges(mods) == want
