#!/usr/bin/env python3
"""Record the sub-agent changes kept under /verif/seeded/<ID>/ (patch.diff, demo, meta.json)."""
import json, os, shutil, sys
META = {
 "C01": ("SNAM boundary back-off loop tests `name[cut] & 0x80` (any non-ASCII byte) instead of the continuation-byte mask: names longer than 32 bytes with a non-ASCII byte at index 32 are cut too short (even to '')",
         "a module name whose UTF-8 form exceeds 32 bytes with a non-ASCII byte at index 32"),
 "C02": ("Generator.load_drawn_waveform converts unsigned->signed with `y - 256 if y > 128 else y` (should be >=): sample -128 loads as +128",
         "a Generator drawn waveform containing the sample value -128 exactly"),
 "C03": ("sampler _StructWriter.char pads with `value + b'\\0' * (width - len(value))` without truncating: a name longer than 22 bytes grows the instrument / sample record and shifts every later field",
         "a Sampler instrument_name or Sample.name longer than 22 bytes"),
 "C04": ("override_raise_controller_value_errors sets the flag to True on exit instead of restoring the saved value: after the nested load of a MetaModule's embedded project the outer load is strict",
         "a file with a MetaModule followed by a stored controller value outside the known range"),
 "C05": ("Module.get_raw uses controller.value_type instead of instance_value_type: MetaModule user-defined controllers mapped onto a negative-minimum controller lose the offset on save and drift by |min| per cycle",
         "a MetaModule with a user-defined controller mapped onto e.g. Amplifier.balance, two load/save cycles"),
 "C06": ("Sampler.sample_data_chunks filters None before enumerate: chunk numbers come from the position among non-empty slots, so samples after an empty slot slide down on save",
         "a sampler whose occupied sample slots are not contiguous (delete a middle sample / add one past a gap)"),
 "C07": ("Project.connect reuses a freed out-slot but records len(out_links) in the destination's in_link_slots first: the two ends disagree",
         "a connect whose source already has a freed outgoing slot (connect, disconnect, connect again from the same source)"),
 "C08": ("the SLnK-emission test becomes `sum(in_link_slots) > 0`: freed slots (-1) cancel positive slots and the slot chunk is silently omitted",
         "a module with a freed in-slot and a live link on a non-zero out-slot of its source, e.g. in_link_slots == [-1, 1] (4-step sequence)"),
 "C09": ("Module.__init__ uses `kw.get(k) or controller.default`: falsy constructor keyword values (0, False, zero-valued enum member) are replaced by the default; an out-of-range 0 is not rejected",
         "the constructor-keyword path with a falsy value for a controller whose default is truthy"),
 "C10": ("Controller.pattern_value precomputes `scale = 0x8000 / span; int(shifted * scale)`: for spans 1530, 22000, 239 the product rounds just below 32768 and the range maximum encodes to 0x7fff",
         "a ranged controller with span 1530 / 22000 / 239 at (or next to) its maximum"),
 "C11": ("Option.__set__ clamp guard `if self.min and self.max` (truthiness) skips the clamp for MetaModule.user_defined_controllers whose min is 0",
         "an out-of-range value assigned to user_defined_controllers"),
 "C12": ("Pattern.raw_data emits 8 zero bytes for cells where note.is_empty() (which ignores the module column): module-only cells are dropped on save",
         "a pattern cell whose only non-zero field is the module number"),
 "C13": ("generator template guard `{% if ospec.min and ospec.max %}` + regenerated base/metamodule.py: the min=0/max=96 bounds of user_defined_controllers disappear from the generated class",
         "only one option of one type; shows as metadata (None, None) or when an out-of-range value is assigned"),
 "C14": ("Project.attach_module takes `empty_slots.pop()` (highest empty position) instead of the lowest",
         "a project with at least two empty positions (only reachable by loading a file with holes)"),
 "C15": ("override_raise_controller_value_errors sets True in its finally block: after the nested load of an embedded project the outer load raises on out-of-range stored values",
         "a MetaModule file whose stored user-defined value lies outside the mapped controller's range"),
 "C16": ("Sampler.load_chunk dispatch guards become `chnm < MAX_SAMPLES * 2` (0x100): the data chunk of sample slot 127 (CHNM 0x100) is ignored on load",
         "a sample in the last slot (index 127)"),
 "C17": ("MetaModule.MappingArray._set_bytes pads short mapping chunks with ONE shared Mapping object (class constant UNMAPPED)",
         "MetaModules loaded from files whose mapping chunk stores fewer than 96 entries (the shipped metamodule.sunsynth has 64), one padded slot mutated in place"),
 "C18": ("override_raise_controller_value_errors becomes a class-based context manager and read_sunvox_file reuses ONE module-level instance: not re-entrant, a nested load overwrites the saved value",
         "a load that contains a nested load (MetaModule project / Sampler effect) with the setting True before the call"),
 "C19": ("Pattern._install re-owns a note only `if note.pattern != self` (attrs value equality, not identity): deep-copied untouched cells of an UNATTACHED pattern compare equal and keep pointing at the copy",
         "a partial set_via_gen on a pattern that is not attached to a project"),
 "C20": ("MultiCtl.on_value_changed computes vmax = vt.max instead of vt.max - vt.min: for target ranges with a positive minimum the top of the window delivers max+1 (or min-1 reversed)",
         "a non-compact target range whose minimum is > 0, input in the top min/max fraction of the window"),
}

META_B = {
 "C01": ("Pattern.raw_data emits 8 zero bytes for cells where Note.is_empty() (which ignores the module column)", "a pattern cell whose only non-zero field is the module number, saved inside a project"),
 "C02": ("ArrayChunk.bytes caches the packed bytes and re-packs only when the `values` list object was replaced", "serialise or clone once, edit an array payload IN PLACE, serialise again"),
 "C03": ("Sampler header field samples_num (0x1c) becomes the number of occupied slots instead of max index + 1", "a sampler whose sample slots are sparse (slot 0 empty or any gap)"),
 "C04": ("ModuleReader.process_SEND runs the MetaModule user-controller step before the last CHNM/CHDT block is handed to the module", "a MetaModule with >= 1 user-defined controller whose last module-specific chunk is the options chunk (no label chunks)"),
 "C05": ("ModuleReader.process_SMIP stores the program number into midi_out_bank", "a module whose MIDI-out program is set (SMIP != -1); drifts over two cycles"),
 "C06": ("Pattern.raw_data is memoised; the cache is not dropped when a Note is edited in place", "load, serialise once, edit a note in place, save again"),
 "C07": ("Project.connect hoists the source side and keeps a per-call `linked` set that is never updated on disconnect", "one request whose target list names the same module as ~b and later as b for a connected pair"),
 "C08": ("SunVoxReader.process_end_of_file rebuilds out tables by 'assign if the slot exists, else append' instead of padding with -1", "a source whose explicit out-slots arrive out of order or with a gap (freed middle out-slot; fan-out in descending index order)"),
 "C09": ("override_raise_controller_value_errors keeps the saved value in ONE module-level global (non-reentrant)", "after a nested override (loading a file with a MetaModule) strict mode is never restored: out-of-range assignments are accepted"),
 "C10": ("DependentRange.parent caches the resolved range per instance; Module.set_raw never clears it", "a unit controller installed by set_raw (file load, clone) selecting a different range, then pattern_value"),
 "C11": ("options_chunks starts from the loaded options record and ORs values in without clearing the option's own bits", "load a module, change an option to a value that clears a bit that was set, save, load"),
 "C12": ("Visualization.level_mode setter clears the whole low byte (`& ~0xFF`) instead of bits 0-4", "a word whose orientation bit (5) or bits 6-7 are set, then level_mode assigned"),
 "C13": ("hand-written Adsr class gains an alias `smooth = BaseAdsr.smooth_transitions`: the registered class has 16 controllers", "only the ADSR type; a genuine 15-value file loses its 15th value; rv writes 16 CVALs"),
 "C14": ("attach_pattern's ownership guard becomes `isinstance(pattern, Pattern)`: PatternClone is no subclass", "a PatternClone already owned by another project is accepted (attach_pattern, +=, += [..])"),
 "C15": ("the reader's list of user-defined controller names stops at user_defined_95 (1-based refactor slip)", "exactly 96 user-defined controllers and a stored value for #96 that differs from its target's current value"),
 "C16": ("_StructReader.char stops at the first NUL (partition) instead of stripping trailing NULs; the 128-byte note map is read with it", "a note at map index >= 96 mapped to a non-zero sample while an earlier map entry is 0; names with an embedded NUL"),
 "C17": ("MetaModule.load_project parses the embedded project through an lru_cache and hands out the cached Project without copying", "two MetaModules loaded from byte-identical embedded projects (same file twice, two clones), then the embedded project of one is mutated"),
 "C18": ("read_sunvox_file opens paths through a new helper that sniffs the first 4 bytes and returns early (or raises) without closing the handle", "a path whose file does not start with SVOX/SSYN, or an I/O error at the very first read"),
 "C19": ("set_via_fn rewritten with itertools product/starmap/zip: a StopIteration escaping the callable looks like normal exhaustion", "the supplied callable fails with StopIteration part-way: the partial array is installed and no exception reaches the caller"),
 "C20": ("convert_value picks the curve segment with round(value / 128) instead of int(...)", "a non-default monotone curve in which a segment is followed by a steeper one"),
}

META_C = {
 "C01": ("ModuleReader.process_SMII reads the MIDI-in channel as (x >> 1) & 0x0F (a '4-bit MIDI channel')", "a module whose midi_in_channel is exactly 16, saved and loaded"),
 "C02": ("Module.load_options assigns loaded option values through the Option descriptor, whose __set__ clears every exclusive_of partner even when assigning False", "the alphabetically first member of an exclusive option pair is ON (MultiSynth.round_note_x, MetaModule.do_not_receive_notes_from_keyboard), then .sunsynth round trip or clone()"),
 "C03": ("MetaModule.chnk returns FIRST_LABEL_CHNM + MAX_USER_DEFINED_CONTROLLERS - 1 (highest label chunk number) instead of the count", "a MetaModule with 96 user-defined controllers and a label on the 96th: chunk number 103 written against CHNK = 103"),
 "C04": ("SunVoxReader.process_VERS also presets based_on_version to (1, 7, 0, 0) (the fall-back after the chunk loop is removed)", "a file whose BVER chunk comes before VERS: BVER's value is overwritten"),
 "C05": ("Project.chunks drops trailing -1 entries from links/link_slots before writing -- on the live module lists (missing copy)", "a module whose in_links ends in a freed slot (connect A, B; disconnect B), then save: the object's link tables change"),
 "C06": ("Sampler.Envelope.chunks skips an envelope that equals the instrument's initial values; finalize_load then treats the absent volume-envelope chunk as an old-format file and overwrites volume AND panning envelopes from the lossy legacy area", "a sampler whose volume envelope is at its defaults and whose panning envelope is edited to a y that is not a multiple of 512 (or > 12 points)"),
 "C07": ("Project.connect resets the `disconnect` flag once per source instead of once per pair", "one request whose destination list has a ~module followed by plain modules: the later ones are disconnected instead of connected"),
 "C08": ("Project.chunks writes SLNK only `if any(links)` (truthiness: module index 0 is falsy)", "the Output used as a link source and being the only entry of the target's in-link table: the edge is gone after save/load"),
 "C09": ("Controller.set_initial returns early when the module already stores an equal value ('already validated')", "an out-of-range value stored leniently (lenient assignment, loaded file, lenient constructor), then the same value assigned in strict mode: accepted silently"),
 "C10": ("Controller.instance_value_type resolves proxies only in the dependent-range branch and UserDefinedProxy.instance_value_type is deleted as redundant", "a MetaModule user-defined controller mapped to a negative-minimum target: get_raw / pattern_value use Range(0, 32768) while set_raw uses the adopted range"),
 "C11": ("Module.load_options assigns loaded option values through the Option descriptor (exclusive partners are cleared even by a False assignment)", "the alphabetically first member of an exclusive pair is ON when saved/loaded or cloned"),
 "C12": ("ModuleReader.process_SMII masks the word with 0x1E before shifting (keeps 4 of the 5 channel bits)", "midi_in_channel == 16, then save and load"),
 "C13": ("ModuleMeta registers options in (byte, bit) order and filters exclusive_of against the partially built option table", "the first-stored member of each exclusive pair (MetaModule.receive_notes_from_keyboard, MultiSynth.round_note_x) loses its exclusive_of entry"),
 "C14": ("Note.mod bounds test `module_index < len(modules)` became `<=`", "a note whose module field is exactly len(project.modules) + 1: IndexError instead of None"),
 "C15": ("MappingArray.update_user_defined_controllers: `continue` for an unassigned mapping became `break`", "an unassigned user-defined slot followed by a slot mapped to a negative-minimum / enum target: later stored values are decoded with Range(0, 44100)"),
 "C16": ("Sampler.Envelope.load_chdt clamps the point count to XI_ENV_POINTS (12)", "any sampler envelope with more than 12 points, saved and loaded"),
 "C17": ("Sampler.is_legacy / legacy_chunks moved to class-level annotated defaults: legacy_chunks = [] is shared by all instances", "a legacy (pre-signature) sampler instrument is loaded, another sampler is loaded, the first is saved again"),
 "C18": ("override_raise_controller_value_errors: try/finally became try/except Exception + restore after the try", "a load interrupted by a BaseException that is not an Exception (KeyboardInterrupt, SystemExit, GeneratorExit) with the flag initially True"),
 "C19": ("set_via_fn/set_via_gen take their working array from a helper with a shared mutable default memo for deepcopy", "a failed bulk edit followed by a successful set_via_gen on the same pattern: cells the second edit does not touch carry the failed edit's leftovers"),
 "C20": ("MultiCtl.macro refuses a repeated target module only when it directly follows its own previous entry", "a macro over (A, ...), (B, ...), (A, ...): accepted, MultiCtl left with fewer links than mappings"),
}


def main_c():
    res = json.load(open("/verif/.work/seedc_results.json")) if os.path.exists("/verif/.work/seedc_results.json") else {}
    for pid, (what, needs) in META_C.items():
        wt = f"/tmp/mutc_{pid}"
        d = f"/verif/seeded/{pid}c"
        if not os.path.exists(os.path.join(wt, "patch.diff")) and not os.path.exists(d):
            continue
        os.makedirs(d, exist_ok=True)
        if os.path.exists(wt):
            shutil.copy(os.path.join(wt, "patch.diff"), os.path.join(d, "patch.diff"))
            shutil.copy(os.path.join(wt, f"demo_{pid}.py"), os.path.join(d, f"demo_{pid}.py"))
        meta = {"property": pid, "change": what, "needs_to_manifest": needs,
                "origin": "independent sub-agent (third wave: told only the property text and the one-line ideas of the first two waves' changes, to avoid duplicates; nothing from /verif)",
                "confirmed": "patch applies to /repo HEAD; existing suite with the change: 170 passed, 2 skipped; demo exits 1 with the change and 0 without (tools/seedtest.sh)",
                "checks_run": res.get(pid, {}).get("ran", ""), "caught_by": res.get(pid, {}).get("caught_by", []), "notes": res.get(pid, {}).get("notes", "")}
        json.dump(meta, open(os.path.join(d, "meta.json"), "w"), indent=1)
    print("recorded", sorted(os.listdir("/verif/seeded")))


def main_b():
    res = json.load(open("/verif/.work/seedb_results.json")) if os.path.exists("/verif/.work/seedb_results.json") else {}
    for pid, (what, needs) in META_B.items():
        wt = f"/tmp/mutb_{pid}"
        d = f"/verif/seeded/{pid}b"
        if not os.path.exists(os.path.join(wt, "patch.diff")) and not os.path.exists(d):
            continue
        os.makedirs(d, exist_ok=True)
        if os.path.exists(wt):
            shutil.copy(os.path.join(wt, "patch.diff"), os.path.join(d, "patch.diff"))
            shutil.copy(os.path.join(wt, f"demo_{pid}.py"), os.path.join(d, f"demo_{pid}.py"))
        meta = {"property": pid, "change": what, "needs_to_manifest": needs,
                "origin": "independent sub-agent (second wave: told only the property text and the one-line idea of the first wave's change, to avoid duplicates; nothing from /verif)",
                "confirmed": "patch applies to /repo HEAD; existing suite with the change: 170 passed, 2 skipped; demo exits 1 with the change and 0 without (tools/seedtest.sh)",
                "checks_run": res.get(pid, {}).get("ran", ""), "caught_by": res.get(pid, {}).get("caught_by", []), "notes": res.get(pid, {}).get("notes", "")}
        json.dump(meta, open(os.path.join(d, "meta.json"), "w"), indent=1)
    print("recorded", sorted(os.listdir("/verif/seeded")))


def main():
    res = json.load(open("/verif/.work/seed_results.json")) if os.path.exists("/verif/.work/seed_results.json") else {}
    for pid, (what, needs) in META.items():
        wt = f"/tmp/mut_{pid}"
        d = f"/verif/seeded/{pid}"
        if not os.path.exists(os.path.join(wt, "patch.diff")) and not os.path.exists(d):
            continue
        os.makedirs(d, exist_ok=True)
        if os.path.exists(wt):
            shutil.copy(os.path.join(wt, "patch.diff"), os.path.join(d, "patch.diff"))
            shutil.copy(os.path.join(wt, f"demo_{pid}.py"), os.path.join(d, f"demo_{pid}.py"))
        meta = {"property": pid, "change": what, "needs_to_manifest": needs,
                "origin": "independent sub-agent given only the property text and a scratch worktree of /repo (nothing from /verif)",
                "confirmed": "patch applies to /repo HEAD; existing suite with the change: 170 passed, 2 skipped; demo exits 1 with the change and 0 without (tools/seedtest.sh)",
                "checks_run": res.get(pid, {}).get("ran", f"./check {pid} --tier quick with the patch applied to /repo, undone afterwards"),
                "caught_by": res.get(pid, {}).get("caught_by", []),
                "notes": res.get(pid, {}).get("notes", "")}
        json.dump(meta, open(os.path.join(d, "meta.json"), "w"), indent=1)
    print("recorded", sorted(os.listdir("/verif/seeded")))

if __name__ == "__main__":
    main_c() if "c" in sys.argv[1:] else main_b() if "b" in sys.argv[1:] else main()
