#!/venv/bin/python
# Replay of a solver counterexample against the real library: no CrossHair, no stubs, real io.BytesIO.
# property C11  obligation reload.Sampler.g0
# Sampler: options ['start_recording_on_project_play', 'record_in_mono', 'record_with_reduced_sample_rate', 'record_in_16_bit'] changed on a module that was loaded from a file (record with other bits set): save/load and clone() show the new values, the others keep theirs
# exit 1 = the property fails for this input on the current /repo tree; exit 0 = it holds.
import os, sys
os.environ["VF_REPLAY"] = "1"
sys.path.insert(0, "/verif")
ARGS = (False, False, False, False)
KWARGS = {}
HARNESS = 'from vf.prelude import *\nfrom rv.modules import MODULE_CLASSES\nfrom vf import refformat as RF\n\n\ndef h(o_start_recording_on_project_play: bool, o_record_in_mono: bool, o_record_with_reduced_sample_rate: bool, o_record_in_16_bit: bool) -> bool:\n    """\n    post: _\n    """\n    src = MODULE_CLASSES[\'Sampler\']()\n    src.start_recording_on_project_play = True\n    src.record_in_mono = True\n    src.record_with_reduced_sample_rate = True\n    src.record_in_16_bit = True\n    src.stop_recording_on_project_stop = True\n    src.ignore_velocity_for_volume = True\n    src.increased_freq_computation_accuracy = True\n    src.fit_to_pattern = 255\n    mod = rt(Synth(src)).module\n    mod.start_recording_on_project_play = o_start_recording_on_project_play\n    mod.record_in_mono = o_record_in_mono\n    mod.record_with_reduced_sample_rate = o_record_with_reduced_sample_rate\n    mod.record_in_16_bit = o_record_in_16_bit\n    e_start_recording_on_project_play = mod.start_recording_on_project_play\n    e_record_in_mono = mod.record_in_mono\n    e_record_with_reduced_sample_rate = mod.record_with_reduced_sample_rate\n    e_record_in_16_bit = mod.record_in_16_bit\n    e_stop_recording_on_project_stop = mod.stop_recording_on_project_stop\n    e_ignore_velocity_for_volume = mod.ignore_velocity_for_volume\n    e_increased_freq_computation_accuracy = mod.increased_freq_computation_accuracy\n    e_fit_to_pattern = mod.fit_to_pattern\n    m2 = rt(Synth(mod)).module\n    m3 = mod.clone()\n    return m2.start_recording_on_project_play == e_start_recording_on_project_play and m2.record_in_mono == e_record_in_mono and m2.record_with_reduced_sample_rate == e_record_with_reduced_sample_rate and m2.record_in_16_bit == e_record_in_16_bit and m2.stop_recording_on_project_stop == e_stop_recording_on_project_stop and m2.ignore_velocity_for_volume == e_ignore_velocity_for_volume and m2.increased_freq_computation_accuracy == e_increased_freq_computation_accuracy and m2.fit_to_pattern == e_fit_to_pattern and m3.start_recording_on_project_play == e_start_recording_on_project_play and m3.record_in_mono == e_record_in_mono and m3.record_with_reduced_sample_rate == e_record_with_reduced_sample_rate and m3.record_in_16_bit == e_record_in_16_bit and m3.stop_recording_on_project_stop == e_stop_recording_on_project_stop and m3.ignore_velocity_for_volume == e_ignore_velocity_for_volume and m3.increased_freq_computation_accuracy == e_increased_freq_computation_accuracy and m3.fit_to_pattern == e_fit_to_pattern\n\n\ndef h__reach(o_start_recording_on_project_play: bool, o_record_in_mono: bool, o_record_with_reduced_sample_rate: bool, o_record_in_16_bit: bool) -> bool:\n    """\n    post: _\n    """\n    h(o_start_recording_on_project_play, o_record_in_mono, o_record_with_reduced_sample_rate, o_record_in_16_bit)\n    return False\n'
ns = {"__name__": "vf_replay"}
exec(compile(HARNESS, "<harness reload.Sampler.g0>", "exec"), ns)
try:
    ok = ns['h'](*ARGS, **KWARGS)
except Exception as e:
    import traceback; traceback.print_exc()
    print("replay: raised", type(e).__name__, e)
    sys.exit(1)
print("replay: h(*%r, **%r) returned %r" % (ARGS, KWARGS, ok))
sys.exit(0 if ok else 1)
