"""Engine C: concrete side-conditions (comparisons with no variable in them).  The harness is a
module text defining h() -> bool with no parameters; it runs against the real library with no
stubs.  Reported separately in the evidence; never counted as a solver obligation."""
import os
import time

from vf import driver


def decide(pid, ob, wdir, known):
    t0 = time.time()
    rp = driver.write_replay(pid, ob, ob.src, (), {})
    fails, rc, tail = driver.run_replay(rp)
    out = {"oid": ob.oid, "group": ob.group, "desc": ob.desc, "shape": ob.shape, "symbolic": "", "engine": "C", "paths": 0,
           "queries": 0, "cpu_s": round(time.time() - t0, 2), "known": [], "state": "CONCRETE_FAIL" if fails else "CONCRETE_OK", "message": tail[-400:]}
    if rc not in (0, 1):
        out["verdict"] = "harness_error"
        return out
    if not fails:
        os.remove(rp)
        out["verdict"] = "discharged"
        out["message"] = ""
        return out
    hit = driver.match_known(pid, ob, (), {}, known)
    if hit is None:
        out["verdict"] = "violation"
        out["replay"] = rp
        out["counterexample"] = "(concrete side-condition)"
    else:
        os.remove(rp)
        out["verdict"] = "known"
        out["known"].append({"finding": hit["name"], "counterexample": "()"})
    return out
