#!/venv/bin/python
# Replay of a solver counterexample against the real library: no CrossHair, no stubs, real io.BytesIO.
# property C12  obligation vis.setter.level_mode.4
# Visualization.level_mode: the getter returns its documented bits of any word; after level_mode = v the word is the old word with exactly that sub-field replaced (every other sub-field and bit unchanged) and the getter returns v
# exit 1 = the property fails for this input on the current /repo tree; exit 0 = it holds.
import os, sys
os.environ["VF_REPLAY"] = "1"
sys.path.insert(0, "/verif")
ARGS = (4, 1)
KWARGS = {}
HARNESS = 'from vf.prelude import *\nfrom rv.modules.module import Visualization, LevelMode, Orientation, OscilloscopeMode\n\n\ndef h(f: int, high: int) -> bool:\n    """\n    pre: (0 <= f <= 4) and (0 <= high <= 134217727) and ((high // 8) % 32 <= 7)\n    post: _\n    """\n    w = 1 * f + 32 * high\n    v = Visualization(w)\n    if int(v.level_mode) != f:\n        return False\n    v.level_mode = LevelMode(4)\n    return v.value == w + (4 - f) * 1 and int(v.level_mode) == 4\n\n\ndef h__reach(f: int, high: int) -> bool:\n    """\n    pre: (0 <= f <= 4) and (0 <= high <= 134217727) and ((high // 8) % 32 <= 7)\n    post: _\n    """\n    h(f, high)\n    return False\n'
ns = {"__name__": "vf_replay"}
exec(compile(HARNESS, "<harness vis.setter.level_mode.4>", "exec"), ns)
try:
    ok = ns['h'](*ARGS, **KWARGS)
except Exception as e:
    import traceback; traceback.print_exc()
    print("replay: raised", type(e).__name__, e)
    sys.exit(1)
print("replay: h(*%r, **%r) returned %r" % (ARGS, KWARGS, ok))
sys.exit(0 if ok else 1)
