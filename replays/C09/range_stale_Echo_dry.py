#!/venv/bin/python
# Replay of a solver counterexample against the real library: no CrossHair, no stubs, real io.BytesIO.
# property C09  obligation range.stale.Echo.dry
# Echo, controllers ['dry', 'wet', 'feedback', 'right_channel_offset_length', 'filter_freq']: whatever integer w the module already stores (leniently stored values may be out of range), a strict assignment of v is accepted iff min <= v <= max, otherwise ControllerValueError and the stored value remains
# exit 1 = the property fails for this input on the current /repo tree; exit 0 = it holds.
import os, sys
os.environ["VF_REPLAY"] = "1"
sys.path.insert(0, "/verif")
ARGS = (-1, -1)
KWARGS = {}
HARNESS = 'from vf.prelude import *\nfrom rv.modules import MODULE_CLASSES\nfrom rv.errors import ControllerValueError, override_raise_controller_value_errors\nCLS = MODULE_CLASSES[\'Echo\']\n\n\ndef h(w: int, v: int) -> bool:\n    """\n    post: _\n    """\n    mod = CLS()\n    with override_raise_controller_value_errors(False):\n        mod.dry = w\n    before = mod.dry\n    try:\n        mod.dry = v\n    except ControllerValueError:\n        if 0 <= v <= 256 or mod.dry != before:\n            return False\n    else:\n        if not (0 <= v <= 256) or mod.dry != v:\n            return False\n    with override_raise_controller_value_errors(False):\n        mod.wet = w\n    before = mod.wet\n    try:\n        mod.wet = v\n    except ControllerValueError:\n        if 0 <= v <= 256 or mod.wet != before:\n            return False\n    else:\n        if not (0 <= v <= 256) or mod.wet != v:\n            return False\n    with override_raise_controller_value_errors(False):\n        mod.feedback = w\n    before = mod.feedback\n    try:\n        mod.feedback = v\n    except ControllerValueError:\n        if 0 <= v <= 256 or mod.feedback != before:\n            return False\n    else:\n        if not (0 <= v <= 256) or mod.feedback != v:\n            return False\n    with override_raise_controller_value_errors(False):\n        mod.right_channel_offset_length = w\n    before = mod.right_channel_offset_length\n    try:\n        mod.right_channel_offset_length = v\n    except ControllerValueError:\n        if 0 <= v <= 32768 or mod.right_channel_offset_length != before:\n            return False\n    else:\n        if not (0 <= v <= 32768) or mod.right_channel_offset_length != v:\n            return False\n    with override_raise_controller_value_errors(False):\n        mod.filter_freq = w\n    before = mod.filter_freq\n    try:\n        mod.filter_freq = v\n    except ControllerValueError:\n        if 0 <= v <= 22000 or mod.filter_freq != before:\n            return False\n    else:\n        if not (0 <= v <= 22000) or mod.filter_freq != v:\n            return False\n    return True\n\n\ndef h__reach(w: int, v: int) -> bool:\n    """\n    post: _\n    """\n    h(w, v)\n    return False\n'
ns = {"__name__": "vf_replay"}
exec(compile(HARNESS, "<harness range.stale.Echo.dry>", "exec"), ns)
try:
    ok = ns['h'](*ARGS, **KWARGS)
except Exception as e:
    import traceback; traceback.print_exc()
    print("replay: raised", type(e).__name__, e)
    sys.exit(1)
print("replay: h(*%r, **%r) returned %r" % (ARGS, KWARGS, ok))
sys.exit(0 if ok else 1)
