#!/venv/bin/python
# Replay of a solver counterexample against the real library: no CrossHair, no stubs, real io.BytesIO.
# property C16  obligation samples.1_64_127
# samples stay at their slot indices and keep PCM bytes, format, channels, rate, loop settings, volume, panning, name, start position; sample record in the documented layout (40 documented bytes + start_pos)
# exit 1 = the property fails for this input on the current /repo tree; exit 0 = it holds.
import os, sys
os.environ["VF_REPLAY"] = "1"
sys.path.insert(0, "/verif")
ARGS = (0, 0, 0, 0, 0, 0, 0, 0, 0, 0, 0)
KWARGS = {}
HARNESS = 'from vf.prelude import *\nfrom rv.modules import MODULE_CLASSES\nfrom vf.invariants import *\nfrom vf import refformat as RF\nSMP = MODULE_CLASSES["Sampler"]\nSG = ("type", "payload")\n\n\ndef rt_sampler(s):\n    data = save_bytes(Synth(s))\n    t = load_bytes(data).module\n    return data, t\n\n\ndef rec_of(data, chnm):\n    ver, md = RF.decode_synth(data)\n    r = [c for c in md["chunks"] if c["chnm"] == chnm]\n    return r[0] if len(r) == 1 else None\n\n\ndef h(d0: int, d1: int, d2: int, d3: int, ls: int, ll: int, vol: int, pan: int, sp: int, rate: int, res: int) -> bool:\n    """\n    pre: (0 <= d0 <= 255) and (0 <= d1 <= 255) and (0 <= d2 <= 255) and (0 <= d3 <= 255) and (0 <= ls <= 4294967295) and (0 <= ll <= 4294967295)\n    pre: (0 <= vol <= 255) and (-128 <= pan <= 127) and (0 <= sp <= 4294967295) and (0 <= rate <= 4294967295) and (0 <= res <= 255)\n    post: _\n    """\n    s = SMP()\n    s1 = SMP.Sample()\n    s1.format = SMP.Format.int8\n    s1.channels = SMP.Channels.stereo\n    s1.data = bytes([182, 42, 166, 59])\n    s1.volume = 62\n    s.samples[1] = s1\n    s64 = SMP.Sample()\n    s64.format = SMP.Format.int8\n    s64.channels = SMP.Channels.stereo\n    s64.data = bytes([171, 97, 124, 8])\n    s64.volume = 34\n    s.samples[64] = s64\n    s127 = SMP.Sample()\n    s127.format = SMP.Format.int8\n    s127.channels = SMP.Channels.stereo\n    s127.data = bytes([d0, d1, d2, d3])\n    s127.loop_start = ls\n    s127.loop_len = ll\n    s127.volume = vol\n    s127.panning = pan\n    s127.start_pos = sp\n    s127.rate = rate\n    s127.reserved2 = res\n    s127.loop_type = SMP.LoopType(0)\n    s127.loop_sustain = True\n    s127.name = b\'nm127\'\n    s.samples[127] = s127\n    s1 = snap_sampler(s, "", groups=("samples",))\n    data, t = rt_sampler(s)\n    if not same(s1, snap_sampler(t, "", groups=("samples",))):\n        return False\n    # documented layout of the sample record (CHNM 2n+1, 40 bytes) and waveform chunk (CHNM 2n+2)\n    r = rec_of(data, 127 * 2 + 1)\n    w = rec_of(data, 127 * 2 + 2)\n    # (the documentation, written for 1.9.4, ends the record at 0x28; current files append start_pos there)\n    if r is None or w is None or len(r["chdt"]) != 44:\n        return False\n    c = r["chdt"]\n    ok = RF.rd_u32(c, 0) == 2 and RF.rd_u32(c, 4) == ls and RF.rd_u32(c, 8) == ll and c[0x0c] == vol and c[0x0f] == pan + 128 and c[0x11] == res\n    ok = ok and RF.rd_u32(c, 0x28) == sp and bytes(c[0x12:0x14]) == b"nm" and list(w["chdt"]) == [d0, d1, d2, d3] and w["chfr"] == rate\n    rec0 = rec_of(data, 0)\n    return ok and RF.rd_u16(rec0["chdt"], 0x1c) == 128\n\n\ndef h__reach(d0: int, d1: int, d2: int, d3: int, ls: int, ll: int, vol: int, pan: int, sp: int, rate: int, res: int) -> bool:\n    """\n    pre: (0 <= d0 <= 255) and (0 <= d1 <= 255) and (0 <= d2 <= 255) and (0 <= d3 <= 255) and (0 <= ls <= 4294967295) and (0 <= ll <= 4294967295)\n    pre: (0 <= vol <= 255) and (-128 <= pan <= 127) and (0 <= sp <= 4294967295) and (0 <= rate <= 4294967295) and (0 <= res <= 255)\n    post: _\n    """\n    h(d0, d1, d2, d3, ls, ll, vol, pan, sp, rate, res)\n    return False\n'
ns = {"__name__": "vf_replay"}
exec(compile(HARNESS, "<harness samples.1_64_127>", "exec"), ns)
try:
    ok = ns['h'](*ARGS, **KWARGS)
except Exception as e:
    import traceback; traceback.print_exc()
    print("replay: raised", type(e).__name__, e)
    sys.exit(1)
print("replay: h(*%r, **%r) returned %r" % (ARGS, KWARGS, ok))
sys.exit(0 if ok else 1)
