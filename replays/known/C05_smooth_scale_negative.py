#!/venv/bin/python
# Replay of a solver counterexample against the real library: no CrossHair, no stubs, real io.BytesIO.
# property C05  obligation cval.Smooth.1
# Smooth: with the stored words of controllers ['fall_eq_rise', 'scale'] arbitrary 32-bit values (in or out of range), load/save reaches a fixed point after one cycle and saving is pure
# exit 1 = the property fails for this input on the current /repo tree; exit 0 = it holds.
import os, sys
os.environ["VF_REPLAY"] = "1"
sys.path.insert(0, "/verif")
ARGS = (0, 2147483648)
KWARGS = {}
HARNESS = 'from vf.prelude import *\nfrom rv.modules import MODULE_CLASSES\nfrom vf import refformat as RF\nfrom vf.invariants import *\n\n\ndef cycle(X):\n    """-> (ok, reason)   Y = save(load(X)); Y\' = save(load(Y)); purity of save"""\n    try:\n        a = load_bytes(X)\n    except Exception:\n        return True   # X is not loadable: outside the property (e.g. a stored enum value that is no member)\n    s0 = snap_any(a)\n    Y = save_bytes(a)\n    s1 = snap_any(a)\n    Y_again = save_bytes(a)\n    if not same(s0, s1) or Y != Y_again:\n        return False\n    b = load_bytes(Y)\n    Y2 = save_bytes(b)\n    return Y == Y2\n\n\ndef snap_any(o):\n    if hasattr(o, "modules"):\n        return snap_project(o)\n    return snap_module(o.module)\n\n\ndef h(w2: int, w3: int) -> bool:\n    """\n    pre: (0 <= w2 <= 4294967295) and (0 <= w3 <= 4294967295)\n    post: _\n    """\n    X = RF.enc_synth(\'Smooth\', flags=81, cvals=[5000, 5000, w2, w3, 0, 0])\n    return cycle(X)\n\n\ndef h__reach(w2: int, w3: int) -> bool:\n    """\n    pre: (0 <= w2 <= 4294967295) and (0 <= w3 <= 4294967295)\n    post: _\n    """\n    h(w2, w3)\n    return False\n'
ns = {"__name__": "vf_replay"}
exec(compile(HARNESS, "<harness cval.Smooth.1>", "exec"), ns)
try:
    ok = ns['h'](*ARGS, **KWARGS)
except Exception as e:
    import traceback; traceback.print_exc()
    print("replay: raised", type(e).__name__, e)
    sys.exit(1)
print("replay: h(*%r, **%r) returned %r" % (ARGS, KWARGS, ok))
sys.exit(0 if ok else 1)
