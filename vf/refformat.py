"""REF-DEC / REF-ENC: an independent decoder/encoder of the SunVox chunk format written ONLY from
docs/sunvox-file-format.rst and specs/fileformat.yaml.  It never imports rv.  Values pass through
int.to_bytes / int.from_bytes and list slicing, so symbolic bytes and ints flow through untouched.

Chunk framing (docs, "File structure"): 4-byte ASCII id, little-endian uint32 length, payload.
"""


class FormatError(Exception):
    pass


def u32(v):
    return list(int.to_bytes(v, 4, "little"))


def s32(v):
    return list(int.to_bytes(v, 4, "little", signed=True))


def u16(v):
    return list(int.to_bytes(v, 2, "little"))


def rd_u32(b, o=0):
    return int.from_bytes(bytes(b[o:o + 4]), "little")


def rd_s32(b, o=0):
    return int.from_bytes(bytes(b[o:o + 4]), "little", signed=True)


def rd_u16(b, o=0):
    return int.from_bytes(bytes(b[o:o + 2]), "little")


def ck(cid, payload=()):
    payload = list(payload)
    assert len(cid) == 4
    return list(cid) + u32(len(payload)) + payload


def cat(chunks):
    out = []
    for c in chunks:
        out.extend(c)
    return out


def walk(data):
    """-> list of (id: bytes, payload: bytes-like); the stream must be consumed exactly"""
    data = list(data)
    out = []
    o = 0
    n = len(data)
    while o < n:
        if o + 8 > n:
            raise FormatError("truncated chunk header at %d" % o)
        cid = bytes(data[o:o + 4])
        ln = rd_u32(data, o + 4)
        if o + 8 + ln > n:
            raise FormatError("chunk %r at %d overruns the stream" % (cid, o))
        out.append((cid, data[o + 8:o + 8 + ln]))
        o += 8 + ln
    return out


def cstring(payload):
    """NUL-terminated UTF-8 (docs: cstring)"""
    b = list(payload)
    if 0 in b:
        b = b[:b.index(0)]
    return bytes(b).decode("utf8")


# ------------------------------------------------------------------------------------------
# module section (docs: "Module chunks"; order from specs/fileformat.yaml chunk_sections.module)

MODULE_ORDER = ["SFFF", "SNAM", "STYP", "SFIN", "SREL", "SXXX", "SYYY", "SZZZ", "SSCL", "SVPR", "SCOL", "SMII", "SMIN", "SMIC", "SMIB", "SMIP",
                "SLNK", "SLnK", "CVAL", "CMID", "CHNK"]


def split_modules(chunks, start):
    """chunks[start:] -> list of module slot chunk lists (each without its SEND), stops at end"""
    slots, cur = [], []
    for cid, pl in chunks[start:]:
        if cid == b"SEND":
            slots.append(cur)
            cur = []
        else:
            cur.append((cid, pl))
    if cur:
        raise FormatError("module slot without SEND terminator")
    return slots


def decode_module(slot):
    """one module slot (list of (id, payload)) -> dict of documented fields"""
    m = {"cvals": [], "chunks": [], "links": None, "link_slots": None, "cmid": None, "chnk": None, "ids": [c for c, _ in slot]}
    cur = None
    for cid, pl in slot:
        if cid == b"SFFF":
            m["flags"] = rd_u32(pl)
        elif cid == b"SNAM":
            if len(pl) != 32:
                raise FormatError("SNAM must be 32 bytes, got %d" % len(pl))
            m["name"] = cstring(pl)
        elif cid == b"STYP":
            m["type"] = cstring(pl)
        elif cid == b"SFIN":
            m["finetune"] = rd_s32(pl)
        elif cid == b"SREL":
            m["relative_note"] = rd_s32(pl)
        elif cid == b"SXXX":
            m["x"] = rd_s32(pl)
        elif cid == b"SYYY":
            m["y"] = rd_s32(pl)
        elif cid == b"SZZZ":
            m["layer"] = rd_s32(pl)
        elif cid == b"SSCL":
            m["scale"] = rd_u32(pl)
        elif cid == b"SVPR":
            m["visualization"] = rd_u32(pl)
        elif cid == b"SCOL":
            if len(pl) != 3:
                raise FormatError("SCOL must be 3 bytes")
            m["color"] = (pl[0], pl[1], pl[2])
        elif cid == b"SMII":
            w = rd_u32(pl)
            m["midi_in_always"] = (w % 2) == 1
            m["midi_in_channel"] = w // 2
        elif cid == b"SMIN":
            m["midi_out_name"] = cstring(pl)
        elif cid == b"SMIC":
            m["midi_out_channel"] = rd_u32(pl)
        elif cid == b"SMIB":
            m["midi_out_bank"] = rd_s32(pl)
        elif cid == b"SMIP":
            m["midi_out_program"] = rd_s32(pl)
        elif cid == b"SLNK":
            if len(pl) % 4:
                raise FormatError("SLNK length not a multiple of 4")
            m["links"] = [rd_s32(pl, i) for i in range(0, len(pl), 4)]
        elif cid == b"SLnK":
            m["link_slots"] = [rd_s32(pl, i) for i in range(0, len(pl), 4)]
        elif cid == b"CVAL":
            if len(pl) != 4:
                raise FormatError("CVAL must be 4 bytes")
            m["cvals"].append(rd_u32(pl))
        elif cid == b"CMID":
            m["cmid"] = list(pl)
        elif cid == b"CHNK":
            m["chnk"] = rd_u32(pl)
        elif cid == b"CHNM":
            cur = {"chnm": rd_u32(pl), "chdt": None, "chff": None, "chfr": None}
            m["chunks"].append(cur)
        elif cid == b"CHDT":
            if cur is None:
                raise FormatError("CHDT before CHNM")
            cur["chdt"] = list(pl)
        elif cid == b"CHFF":
            cur["chff"] = rd_u32(pl)
        elif cid == b"CHFR":
            cur["chfr"] = rd_u32(pl)
        else:
            raise FormatError("undocumented chunk %r in a module section" % cid)
    return m


def decode_synth(data):
    """.sunsynth stream -> (version tuple, module dict)"""
    ch = walk(data)
    if not ch or ch[0][0] != b"SSYN" or len(ch[0][1]) != 0:
        raise FormatError("missing SSYN header")
    if ch[1][0] != b"VERS":
        raise FormatError("VERS expected after SSYN")
    slots = split_modules(ch, 2)
    if len(slots) != 1:
        raise FormatError("a synth holds exactly one module")
    return tuple(reversed(list(ch[1][1]))), decode_module(slots[0])


def option_field(chdt, byte, bit, size):
    """documented option layout: `size` bits starting at `bit` of byte `byte` of the options CHDT"""
    if byte >= len(chdt):
        raise FormatError("options record too short for byte %d" % byte)
    return (chdt[byte] // (2**bit)) % (2**size)


# ------------------------------------------------------------------------------------------
# REF-ENC


def enc_module(mtype, name="m", flags=0x49, cvals=(), chunks=(), chnk=None, in_project=False, x=0, y=0, layer=0, links=None, link_slots=None,
               finetune=0, relative_note=0, scale=256, color=(255, 255, 255), visualization=0x000C0101, midi_in=0, midi_out_channel=0,
               midi_out_bank=-1, midi_out_program=-1, cmid=None, extra_before_cvals=()):
    """documented module section (without the SEND terminator); values may be symbolic"""
    nb = list(name.encode("utf8"))[:32]
    out = [ck(b"SFFF", u32(flags)), ck(b"SNAM", nb + [0] * (32 - len(nb)))]
    if mtype is not None:
        out.append(ck(b"STYP", list(mtype.encode("utf8")) + [0]))
    out += [ck(b"SFIN", s32(finetune)), ck(b"SREL", s32(relative_note))]
    if in_project:
        out += [ck(b"SXXX", s32(x)), ck(b"SYYY", s32(y)), ck(b"SZZZ", s32(layer))]
    out.append(ck(b"SSCL", u32(scale)))
    if in_project:
        out.append(ck(b"SVPR", u32(visualization)))
    out += [ck(b"SCOL", list(color)), ck(b"SMII", u32(midi_in)), ck(b"SMIC", u32(midi_out_channel)), ck(b"SMIB", s32(midi_out_bank)), ck(b"SMIP", s32(midi_out_program))]
    if in_project:
        out.append(ck(b"SLNK", cat(s32(l) for l in (links or []))))
        if link_slots is not None:
            out.append(ck(b"SLnK", cat(s32(l) for l in link_slots)))
    out += list(extra_before_cvals)
    for v in cvals:
        out.append(ck(b"CVAL", u32(v)))
    if cmid is not None:
        out.append(ck(b"CMID", cmid))
    elif len(cvals):
        out.append(ck(b"CMID", [0, 0, 0, 0, 0, 0, 0, 0xFF] * len(cvals)))
    if chunks or chnk is not None:
        out.append(ck(b"CHNK", u32(chnk if chnk is not None else (max(c[0] for c in chunks) + 1))))
        for c in chunks:
            out.append(ck(b"CHNM", u32(c[0])))
            out.append(ck(b"CHDT", c[1]))
            if len(c) > 2 and c[2] is not None:
                out.append(ck(b"CHFF", u32(c[2])))
            if len(c) > 3 and c[3] is not None:
                out.append(ck(b"CHFR", u32(c[3])))
    return out


def enc_synth(mtype, version=(2, 1, 2, 1), **kw):
    return cat([ck(b"SSYN"), ck(b"VERS", list(reversed(version)))] + enc_module(mtype, **kw) + [ck(b"SEND")])


def enc_options(layout, values, nbytes=None):
    """options CHDT from the YAML layout [(name, byte, bit, size, inverted)] and {name: logical value}"""
    n = nbytes if nbytes is not None else max(l[1] for l in layout) + 1
    rec = [0] * n
    for name, byte, bit, size, inverted in layout:
        v = values[name]
        if size == 1:
            v = (0 if v else 1) if inverted else (1 if v else 0)
        rec[byte] = rec[byte] + v * (2**bit)
    return rec


def sampler_record(max_sample=0, note_map=None, legacy_map=None, vol_points=None, pan_points=None, nvol=0, npan=0,
                   vol_sus=0, vol_ls=0, vol_le=0, pan_sus=0, pan_ls=0, pan_le=0, vol_flags=0, pan_flags=0,
                   vib_type=0, vib_attack=0, vib_depth=0, vib_rate=0, fadeout=0, const_f4=(0x40, 0, 0x80, 0, 0, 0, 0, 0),
                   sign=b"PMAS", version=4, tail=(6, 0, 0), name=b"", with_tail=True):
    """Sampler global configuration record (docs: 'Sampler global configuration (CHNM 0)', 0x184
    bytes) followed, when with_tail, by the three 32-bit fields current SunVox appends
    (max version, editor cursor, editor selected size): 400 bytes in all."""
    rec = [0] * 0x184
    nm = list(name)[:22]
    rec[4:4 + len(nm)] = nm
    rec[0x1c:0x20] = u32(max_sample)
    lm = list(legacy_map if legacy_map is not None else [0] * 96)
    rec[0x24:0x24 + 96] = lm
    vp = list(vol_points if vol_points is not None else [0] * 24)
    pp = list(pan_points if pan_points is not None else [0] * 24)
    o = 0x84
    for v in vp:
        rec[o:o + 2] = u16(v)
        o += 2
    for v in pp:
        rec[o:o + 2] = u16(v)
        o += 2
    rec[0xe4:0xee] = [nvol, npan, vol_sus, vol_ls, vol_le, pan_sus, pan_ls, pan_le, vol_flags, pan_flags]
    rec[0xee:0xf2] = [vib_type, vib_attack, vib_depth, vib_rate]
    rec[0xf2:0xf4] = u16(fadeout)
    rec[0xf4:0xfc] = list(const_f4)
    rec[0xfc:0x100] = list(sign)
    rec[0x100:0x104] = u32(version)
    nmap = list(note_map if note_map is not None else [0] * 119)
    rec[0x104:0x104 + 119] = nmap
    if with_tail:
        rec += u32(tail[0]) + s32(tail[1]) + s32(tail[2])
    return rec


# ------------------------------------------------------------------------------------------
# project files (docs: "Project chunks", "Pattern chunks"; order: specs chunk_sections.project)

PROJECT_FIELDS = [  # (key, chunk id, kind)
    ("based_on_version", b"BVER", "ver"), ("flags", b"FLGS", "u32"), ("sync", b"SFGS", "u32"), ("initial_bpm", b"BPM ", "u32"), ("initial_tpl", b"SPED", "u32"),
    ("time_grid", b"TGRD", "u32"), ("time_grid2", b"TGD2", "u32"), ("global_volume", b"GVOL", "u32"), ("name", b"NAME", "cstr"),
    ("modules_scale", b"MSCL", "u32"), ("modules_zoom", b"MZOO", "u32"), ("modules_x_offset", b"MXOF", "s32"), ("modules_y_offset", b"MYOF", "s32"),
    ("modules_layer_mask", b"LMSK", "u32"), ("modules_current_layer", b"CURL", "u32"), ("timeline_position", b"TIME", "s32"),
    ("restart_position", b"REPS", "s32"), ("selected_module", b"SELS", "u32"), ("selected_generator", b"LGEN", "s32"),
    ("current_pattern", b"PATN", "u32"), ("current_track", b"PATT", "u32"), ("current_line", b"PATL", "u32"),
]
PROJECT_DEFAULTS = {"based_on_version": (2, 1, 2, 1), "flags": 0, "sync": 9, "initial_bpm": 125, "initial_tpl": 6, "time_grid": 4, "time_grid2": 4, "global_volume": 80,
                    "name": "Project", "modules_scale": 256, "modules_zoom": 256, "modules_x_offset": 0, "modules_y_offset": 0, "modules_layer_mask": 0,
                    "modules_current_layer": 0, "timeline_position": 0, "restart_position": 0, "selected_module": 0, "selected_generator": -1,
                    "current_pattern": 0, "current_track": 0, "current_line": 0}


def _enc_field(kind, v):
    if kind == "u32":
        return u32(v)
    if kind == "s32":
        return s32(v)
    if kind == "ver":
        return list(reversed(list(v)))
    if kind == "cstr":
        return list(v.encode("utf8")) + [0]
    raise ValueError(kind)


def enc_project_header(version=(2, 1, 2, 1), omit=(), **fields):
    """[SVOX, VERS, <project chunks>] as a list of chunks; `omit` drops optional chunks by key"""
    vals = dict(PROJECT_DEFAULTS)
    vals.update(fields)
    out = [ck(b"SVOX"), ck(b"VERS", list(reversed(list(version))))]
    for key, cid, kind in PROJECT_FIELDS:
        if key in omit:
            continue
        out.append(ck(cid, _enc_field(kind, vals[key])))
    return out


def enc_note(note=0, vel=0, module=0, ctl=0, val=0):
    return [note, vel] + u16(module) + u16(ctl) + u16(val)


def enc_pattern(cells, tracks, lines, name=None, y_size=32, flags_PFLG=0, icon=None, fg=(0, 0, 0), bg=(255, 255, 255), flags_PFFF=0, x=0, y=0):
    """cells: row-major list of 8-byte lists"""
    out = [ck(b"PDTA", cat(cells))]
    if name is not None:
        out.append(ck(b"PNME", list(name.encode("utf8")) + [0]))
    out += [ck(b"PCHN", u32(tracks)), ck(b"PLIN", u32(lines)), ck(b"PYSZ", u32(y_size)), ck(b"PFLG", u32(flags_PFLG)),
            ck(b"PICO", list(icon) if icon is not None else [0] * 32), ck(b"PFGC", list(fg)), ck(b"PBGC", list(bg)),
            ck(b"PFFF", u32(flags_PFFF)), ck(b"PXXX", s32(x)), ck(b"PYYY", s32(y)), ck(b"PEND")]
    return out


def enc_clone(source, flags_PFFF=1, x=0, y=0):
    return [ck(b"PPAR", u32(source)), ck(b"PFFF", u32(flags_PFFF)), ck(b"PXXX", s32(x)), ck(b"PYYY", s32(y)), ck(b"PEND")]


def enc_project(header=None, patterns=(), modules=()):
    """patterns: list of chunk lists (from enc_pattern/enc_clone) or None for an empty slot;
    modules: list of chunk lists (from enc_module, no SEND) or None for an empty slot"""
    out = list(header if header is not None else enc_project_header())
    for p in patterns:
        out += [ck(b"PEND")] if p is None else list(p)
    for m in modules:
        if m is not None:
            out += list(m)
        out.append(ck(b"SEND"))
    return cat(out)


def enc_output(**kw):
    kw.setdefault("flags", 0x43)
    kw.setdefault("name", "Output")
    return enc_module(None, in_project=True, **kw)


def decode_project(data):
    """-> dict(header fields, patterns: list, modules: list of module dicts / None)"""
    ch = walk(data)
    if not ch or ch[0][0] != b"SVOX" or len(ch[0][1]) != 0:
        raise FormatError("missing SVOX header")
    ids = {cid: (key, kind) for key, cid, kind in PROJECT_FIELDS}
    hdr = {}
    i = 1
    if ch[i][0] != b"VERS":
        raise FormatError("VERS expected")
    hdr["version"] = tuple(reversed(list(ch[i][1])))
    i += 1
    order = [cid for _, cid, _ in PROJECT_FIELDS]
    last = -1
    while i < len(ch) and ch[i][0] in ids:
        cid, pl = ch[i]
        key, kind = ids[cid]
        if order.index(cid) <= last:
            raise FormatError("project chunk %r out of documented order" % cid)
        last = order.index(cid)
        if kind == "u32":
            if len(pl) != 4:
                raise FormatError("%r must be 4 bytes" % cid)
            hdr[key] = rd_u32(pl)
        elif kind == "s32":
            if len(pl) != 4:
                raise FormatError("%r must be 4 bytes" % cid)
            hdr[key] = rd_s32(pl)
        elif kind == "ver":
            hdr[key] = tuple(reversed(list(pl)))
        else:
            hdr[key] = cstring(pl)
        i += 1
    patterns = []
    cur = None
    while i < len(ch) and ch[i][0][:1] == b"P":
        cid, pl = ch[i]
        if cid == b"PEND":
            patterns.append(cur)
            cur = None
        else:
            if cur is None:
                cur = {"ids": []}
            cur["ids"].append(cid)
            if cid == b"PDTA":
                cur["data"] = list(pl)
            elif cid == b"PNME":
                cur["name"] = cstring(pl)
            elif cid == b"PCHN":
                cur["tracks"] = rd_u32(pl)
            elif cid == b"PLIN":
                cur["lines"] = rd_u32(pl)
            elif cid == b"PYSZ":
                cur["y_size"] = rd_u32(pl)
            elif cid == b"PFLG":
                cur["flags_PFLG"] = rd_u32(pl)
            elif cid == b"PICO":
                cur["icon"] = list(pl)
            elif cid == b"PFGC":
                cur["fg"] = tuple(pl)
            elif cid == b"PBGC":
                cur["bg"] = tuple(pl)
            elif cid == b"PFFF":
                cur["flags_PFFF"] = rd_u32(pl)
            elif cid == b"PXXX":
                cur["x"] = rd_s32(pl)
            elif cid == b"PYYY":
                cur["y"] = rd_s32(pl)
            elif cid == b"PPAR":
                cur["source"] = rd_u32(pl)
            else:
                raise FormatError("undocumented pattern chunk %r" % cid)
        i += 1
    if cur is not None:
        raise FormatError("pattern slot without PEND")
    slots = split_modules(ch, i)
    modules = [decode_module(s) if s else None for s in slots]
    return {"header": hdr, "patterns": patterns, "modules": modules}
