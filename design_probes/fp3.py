import z3, time, sys, subprocess
F = z3.Float64(); RNE = z3.RNE(); RTZ = z3.RTZ()
BV = z3.BitVecSort(32)
def fpv(x): return z3.FPVal(float(x), F)
def i2f(bv): return z3.fpSignedToFP(RNE, bv, F)
def f2i(f): return z3.fpToSBV(RTZ, f, BV)
def stage2(qsteps, smin, smax, dmin, dmax, vmax, u):
    srange = smax - smin
    if qsteps < 32768:
        quant = max(qsteps - 1, 1)
        step = 32768 / quant
        q = f2i(z3.fpDiv(RNE, i2f(u), fpv(step)))
        w = z3.fpDiv(RNE, z3.fpMul(RNE, i2f(q), fpv(step)), fpv(32768))
        res_i = smin + f2i(z3.fpMul(RNE, fpv(srange), w))
    else:
        res_i = smin + z3.UDiv(srange * u, z3.BitVecVal(32768, 32))
    drange = dmax - dmin
    val = i2f(res_i)
    if vmax is not None:
        val = z3.fpDiv(RNE, val, fpv(32768 / vmax))
    if drange > 0:
        val = z3.fpAdd(RNE, val, fpv(dmin))
    else:
        val = z3.fpSub(RNE, fpv(dmin), val)
    return f2i(val)
def check(qsteps, smin, smax, span, rev):
    u = z3.BitVec('u', 32)
    s = z3.Solver()
    s.add(z3.ULE(u, 32768))
    dmin, dmax = (span, 0) if rev else (0, span)
    r0 = stage2(qsteps, smin, smax, dmin, dmax, span, u)
    r1 = stage2(qsteps, smin, smax, dmin, dmax, span, u + 1)
    mono_bad = (r0 < r1) if rev else (r0 > r1)
    s.add(z3.Or(r0 < 0, r0 > span, z3.And(z3.ULT(u, 32768), mono_bad)))
    s.set("timeout", 60000)
    t = time.time(); res = s.check(); dt = time.time() - t
    open("q.smt2","w").write("(set-logic QF_BVFP)\n" + s.to_smt2())
    t2=time.time()
    try:
        out = subprocess.run(["cvc5","--tlimit=60000","q.smt2"],capture_output=True,text=True).stdout.strip()
    except Exception as e: out=str(e)
    print(qsteps, smin, smax, span, rev, "z3:", res, round(dt, 2), "cvc5:", out, round(time.time()-t2,2), s.model()[u] if res == z3.sat else "")
    sys.stdout.flush()
check(32768, 0, 32768, 256, False)
check(32768, 0, 32768, 14000, True)
check(32768, 5000, 25000, 1530, False)
check(7, 0, 32768, 256, False)
check(20, 100, 32000, 32767, True)
check(3, 0, 32768, 1000, False)
