#!/venv/bin/python
# Replay of a solver counterexample against the real library: no CrossHair, no stubs, real io.BytesIO.
# property C12  obligation pattern.file.1x1
# Pattern 1x1 inside a project: byte image survives save/load and re-save is byte-identical
# exit 1 = the property fails for this input on the current /repo tree; exit 0 = it holds.
import os, sys
os.environ["VF_REPLAY"] = "1"
sys.path.insert(0, "/verif")
ARGS = (0, 0, 1, 0, 0, 0, 0, 0)
KWARGS = {}
HARNESS = 'from vf.prelude import *\n\n\ndef h(n0: int, v0: int, c0b0: int, c0b1: int, c0b2: int, c0b3: int, c0b4: int, c0b5: int) -> bool:\n    """\n    pre: ((0 <= n0 <= 120 or 128 <= n0 <= 134 or n0 == 140)) and (0 <= v0 <= 129) and (0 <= c0b0 <= 255) and (0 <= c0b1 <= 255) and (0 <= c0b2 <= 255) and (0 <= c0b3 <= 255)\n    pre: (0 <= c0b4 <= 255) and (0 <= c0b5 <= 255)\n    post: _\n    """\n    img = bytes([n0, v0, c0b0, c0b1, c0b2, c0b3, c0b4, c0b5])\n    proj = Project()\n    p = Pattern(lines=1, tracks=1)\n    p.raw_data = img\n    proj.attach_pattern(p)\n    q = rt(proj)\n    p2 = q.patterns[0]\n    if not (p2.lines == 1 and p2.tracks == 1 and p2.raw_data == img):\n        return False\n    return save_bytes(q) == save_bytes(proj)\n\n\ndef h__reach(n0: int, v0: int, c0b0: int, c0b1: int, c0b2: int, c0b3: int, c0b4: int, c0b5: int) -> bool:\n    """\n    pre: ((0 <= n0 <= 120 or 128 <= n0 <= 134 or n0 == 140)) and (0 <= v0 <= 129) and (0 <= c0b0 <= 255) and (0 <= c0b1 <= 255) and (0 <= c0b2 <= 255) and (0 <= c0b3 <= 255)\n    pre: (0 <= c0b4 <= 255) and (0 <= c0b5 <= 255)\n    post: _\n    """\n    h(n0, v0, c0b0, c0b1, c0b2, c0b3, c0b4, c0b5)\n    return False\n'
ns = {"__name__": "vf_replay"}
exec(compile(HARNESS, "<harness pattern.file.1x1>", "exec"), ns)
try:
    ok = ns['h'](*ARGS, **KWARGS)
except Exception as e:
    import traceback; traceback.print_exc()
    print("replay: raised", type(e).__name__, e)
    sys.exit(1)
print("replay: h(*%r, **%r) returned %r" % (ARGS, KWARGS, ok))
sys.exit(0 if ok else 1)
