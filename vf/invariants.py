"""Hand-written oracles shared by the harnesses: observable-state snapshots, link-table and
index invariants.  Pure Python over the public attributes of rv objects; works the same under
symbolic execution and in replays.

A snapshot is a flat list of (path, value) pairs so that two snapshots can be compared entry
by entry and the first difference can be named in a replay."""
import os
from enum import Enum

_REPLAY = os.environ.get("VF_REPLAY") == "1"

GROUPS_MODULE = ("type", "common", "midi", "ctl", "opt", "cmid", "links", "payload")


def _ev(v):
    """controller / enum values are compared by their integer value"""
    if isinstance(v, Enum):
        return v.value
    return v


def snap_module(mod, groups=GROUPS_MODULE, prefix="", depth=0):
    out = []
    if mod is None:
        return [(prefix + "none", True)]
    if "type" in groups:
        out.append((prefix + "class", type(mod).__name__))
        out.append((prefix + "mtype", mod.mtype))
    if "common" in groups:
        for a in ("name", "flags", "x", "y", "layer", "scale", "mod_finetune", "mod_relative_note"):
            out.append((prefix + a, getattr(mod, a)))
        out.append((prefix + "color", tuple(mod.color)))
        out.append((prefix + "visualization", mod.visualization.value))
    if "common_synth" in groups:  # what a .sunsynth file stores (no x/y/layer/visualization)
        for a in ("name", "flags", "scale", "mod_finetune", "mod_relative_note"):
            out.append((prefix + a, getattr(mod, a)))
        out.append((prefix + "color", tuple(mod.color)))
    if "midi" in groups:
        for a in ("midi_in_always", "midi_in_channel", "midi_out_name", "midi_out_channel", "midi_out_bank", "midi_out_program"):
            out.append((prefix + a, getattr(mod, a)))
    if "ctl" in groups:
        for name, c in mod.controllers.items():
            if c.attached(mod) or not name.startswith("user_defined_"):
                out.append((prefix + "ctl." + name, _ev(getattr(mod, name))))
    if "opt" in groups:
        for name in mod.options:
            out.append((prefix + "opt." + name, getattr(mod, name)))
    if "cmid" in groups:
        for name, c in mod.controllers.items():
            if c.attached(mod):
                cm = mod.controller_midi_maps[name]
                out.append((prefix + "cmid." + name, (cm.channel, cm.message_type.value, cm.message_parameter, cm.slope.value)))
    if "links" in groups:
        out.append((prefix + "in_links", strip_links(mod.in_links)))
        out.append((prefix + "in_link_slots", strip_links(mod.in_link_slots)))
        out.append((prefix + "out_links", strip_links(mod.out_links)))
        out.append((prefix + "out_link_slots", strip_links(mod.out_link_slots)))
    if "payload" in groups:
        out.extend(snap_payload(mod, prefix + "payload.", depth))
    return out


def strip_links(lst):
    l = list(lst)
    while l and l[-1] == -1:
        l.pop()
    return l


def _arr(chunk):
    vals = chunk.values
    out = []
    for v in vals:
        if isinstance(v, Enum):
            out.append(v.value)
        elif hasattr(v, "future_use5"):  # MultiCtl.Mapping
            out.append((v.min, v.max, v.controller, v.flags, v.future_use2, v.future_use3, v.future_use4, v.future_use5))
        elif hasattr(v, "module") and hasattr(v, "controller"):  # MetaModule.Mapping
            out.append((v.module, v.controller))
        else:
            out.append(v)
    return out


def snap_payload(mod, prefix, depth=0):
    cn = type(mod).__name__
    out = []
    if cn == "MultiSynth":
        out += [(prefix + "nv_curve", _arr(mod.nv_curve)), (prefix + "vv_curve", _arr(mod.vv_curve)), (prefix + "np_curve", _arr(mod.np_curve))]
    elif cn == "MultiCtl":
        out += [(prefix + "curve", _arr(mod.curve)), (prefix + "mappings", _arr(mod.mappings))]
    elif cn == "WaveShaper":
        out += [(prefix + "curve", _arr(mod.curve))]
    elif cn == "VorbisPlayer":
        out += [(prefix + "data", mod.data or b"")]
    elif cn == "Fmx":
        out += [(prefix + "custom_waveform", _arr(mod.custom_waveform))]
    elif cn in ("Generator", "AnalogGenerator"):
        dw = mod.drawn_waveform
        out += [(prefix + "dw.samples", list(dw.samples)), (prefix + "dw.format", _ev(dw.format)), (prefix + "dw.freq", dw.freq)]
    elif cn == "SpectraVoice":
        out += [(prefix + "h_freqs", _arr(mod.harmonic_freqs)), (prefix + "h_volumes", _arr(mod.harmonic_volumes)),
                (prefix + "h_widths", _arr(mod.harmonic_widths)), (prefix + "h_types", _arr(mod.harmonic_types))]
    elif cn == "Sampler":
        out += snap_sampler(mod, prefix)
    elif cn == "MetaModule":
        n = mod.user_defined_controllers
        out.append((prefix + "mappings", _arr(mod.mappings)[: max(n, 0)]))
        for i, c in enumerate(mod.user_defined):
            if c.attached(mod):
                out.append((prefix + "label%d" % i, c.label))
        if depth < 4:
            out += snap_project(mod.project, prefix=prefix + "project.", depth=depth + 1)
    return out


SAMPLER_GROUPS = ("samples", "envelopes", "notemap", "vibrato", "editor", "effect")


def snap_envelope(e, prefix):
    return [
        (prefix + "points", [tuple(p) for p in e.points]),
        (prefix + "sustain_point", e.sustain_point), (prefix + "loop_start_point", e.loop_start_point), (prefix + "loop_end_point", e.loop_end_point),
        (prefix + "enable", bool(e.enable)), (prefix + "sustain", bool(e.sustain)), (prefix + "loop", bool(e.loop)),
        (prefix + "ctl_index", e.ctl_index), (prefix + "gain_pct", e.gain_pct), (prefix + "velocity", e.velocity),
    ]


def snap_sample(s, prefix):
    if s is None:
        return [(prefix + "none", True)]
    return [
        (prefix + "data", s.data), (prefix + "format", _ev(s.format)), (prefix + "channels", _ev(s.channels)), (prefix + "rate", s.rate),
        (prefix + "loop_start", s.loop_start), (prefix + "loop_len", s.loop_len), (prefix + "loop_type", _ev(s.loop_type)),
        (prefix + "loop_sustain", bool(s.loop_sustain)), (prefix + "volume", s.volume), (prefix + "finetune", s.finetune),
        (prefix + "panning", s.panning), (prefix + "relative_note", s.relative_note), (prefix + "name", s.name), (prefix + "start_pos", s.start_pos),
    ]


def snap_sampler(mod, prefix, groups=SAMPLER_GROUPS):
    out = []
    if "samples" in groups:
        for i, s in enumerate(mod.samples):
            if s is not None:
                out += snap_sample(s, prefix + "sample%d." % i)
        out.append((prefix + "sample_slots", [i for i, s in enumerate(mod.samples) if s is not None]))
    if "envelopes" in groups:
        out += snap_envelope(mod.volume_envelope, prefix + "env.vol.")
        out += snap_envelope(mod.panning_envelope, prefix + "env.pan.")
        out += snap_envelope(mod.pitch_envelope, prefix + "env.pitch.")
        for i, e in enumerate(mod.effect_control_envelopes):
            out += snap_envelope(e, prefix + "env.fx%d." % i)
    if "notemap" in groups:
        out.append((prefix + "note_samples", list(mod.note_samples.values())))
    if "vibrato" in groups:
        out += [(prefix + "vibrato_type", _ev(mod.vibrato_type)), (prefix + "vibrato_attack", mod.vibrato_attack), (prefix + "vibrato_depth", mod.vibrato_depth),
                (prefix + "vibrato_rate", mod.vibrato_rate), (prefix + "volume_fadeout", mod.volume_fadeout)]
    if "editor" in groups:
        for a in ("instrument_name", "volume_old", "ins_finetune", "ins_relative_note", "editor_cursor", "editor_selected_size",
                  "unused1", "unused2", "unused3", "unused4", "unused5", "unused6", "version", "max_version"):
            out.append((prefix + a, getattr(mod, a)))
    if "effect" in groups:
        if mod.effect is None:
            out.append((prefix + "effect", None))
        else:
            out += snap_module(mod.effect.module, prefix=prefix + "effect.", groups=("type", "common_synth", "midi", "ctl", "opt", "cmid", "payload"))  # a synth: x/y/layer/visualization are not stored
    return out


PROJECT_FIELDS = (
    "sunvox_version", "based_on_version", "flags", "receive_sync_midi", "receive_sync_other", "initial_bpm", "initial_tpl", "time_grid", "time_grid2",
    "global_volume", "name", "modules_scale", "modules_zoom", "modules_x_offset", "modules_y_offset", "modules_layer_mask",
    "modules_current_layer", "timeline_position", "restart_position", "selected_module", "selected_generator", "current_pattern",
    "current_track", "current_line",
)


def snap_pattern(p, prefix):
    if p is None:
        return [(prefix + "none", True)]
    cn = type(p).__name__
    out = [(prefix + "class", cn)]
    if cn == "PatternClone":
        out += [(prefix + "source", p.source), (prefix + "flags_PFFF", int(p.flags_PFFF)), (prefix + "x", p.x), (prefix + "y", p.y)]
        return out
    for a in ("name", "tracks", "lines", "y_size", "flags_PFLG", "icon", "flags_PFFF", "x", "y"):
        out.append((prefix + a, getattr(p, a)))
    out.append((prefix + "fg_color", tuple(p.fg_color)))
    out.append((prefix + "bg_color", tuple(p.bg_color)))
    # cells read field by field from the note objects (independent of the raw_data getter, which is also what the writer uses)
    out.append((prefix + "cells", [[(int(n.note), n.vel, n.module, n.ctl, n.val) for n in line] for line in p.data]))
    out.append((prefix + "raw_data", p.raw_data))
    return out


def snap_project(p, groups=("header", "modules", "patterns"), module_groups=GROUPS_MODULE, prefix="", depth=0):
    out = []
    if "header" in groups:
        for a in PROJECT_FIELDS:
            v = getattr(p, a)
            if a == "sunvox_version":
                continue  # the writer's own version; the loaded file's is loaded_sunvox_version
            out.append((prefix + a, tuple(v) if isinstance(v, (tuple, list)) else _ev(v)))
    if "modules" in groups:
        out.append((prefix + "n_modules", len(p.modules)))
        for i, mod in enumerate(p.modules):
            out += snap_module(mod, groups=module_groups, prefix=prefix + "m%d." % i, depth=depth)
    if "patterns" in groups:
        out.append((prefix + "n_patterns", len(p.patterns)))
        for i, pat in enumerate(p.patterns):
            out += snap_pattern(pat, prefix + "p%d." % i)
    return out


def same(s1, s2):
    """entry-by-entry equality of two snapshots"""
    r = _same(s1, s2)
    if not r and _REPLAY:
        print("snapshot difference (key, original, key, loaded):", first_diff(s1, s2))
    return r


def _same(s1, s2):
    if len(s1) != len(s2):
        return False
    for i in range(len(s1)):
        if s1[i][0] != s2[i][0]:
            return False
        if not (s1[i][1] == s2[i][1]):
            return False
    return True


def first_diff(s1, s2):
    if len(s1) != len(s2):
        k1 = [k for k, _ in s1]
        k2 = [k for k, _ in s2]
        return ("length", len(s1), len(s2), [k for k in k1 if k not in k2][:5], [k for k in k2 if k not in k1][:5])
    for (k1, v1), (k2, v2) in zip(s1, s2):
        if k1 != k2 or not (v1 == v2):
            return (k1, v1, k2, v2)
    return None


def without(s, prefixes):
    return [(k, v) for k, v in s if not any(k.startswith(p) for p in prefixes)]


# ------------------------------------------------------------------ link-table invariant


def links_ok(project):
    """C07/C08: every live entry of an in-table names a source whose out-table, at the slot the
    entry names, points back (module index and slot), and vice versa; freed entries are -1 on
    both tables of a side; no live peer appears twice in one table."""
    mods = project.modules
    for mod in mods:
        if mod is None:
            continue
        if len(mod.in_links) != len(mod.in_link_slots) or len(mod.out_links) != len(mod.out_link_slots):
            return False
        live_in = [x for x in mod.in_links if x != -1]
        live_out = [x for x in mod.out_links if x != -1]
        if len(set(live_in)) != len(live_in) or len(set(live_out)) != len(live_out):
            return False
        for i in range(len(mod.in_links)):
            src = mod.in_links[i]
            slot = mod.in_link_slots[i]
            if src == -1:
                if slot != -1:
                    return False
                continue
            if src < 0 or src >= len(mods) or mods[src] is None:
                return False
            s = mods[src]
            if slot < 0 or slot >= len(s.out_links):
                return False
            if s.out_links[slot] != mod.index or s.out_link_slots[slot] != i:
                return False
        for j in range(len(mod.out_links)):
            dst = mod.out_links[j]
            slot = mod.out_link_slots[j]
            if dst == -1:
                if slot != -1:
                    return False
                continue
            if dst < 0 or dst >= len(mods) or mods[dst] is None:
                return False
            d = mods[dst]
            if slot < 0 or slot >= len(d.in_links):
                return False
            if d.in_links[slot] != mod.index or d.in_link_slots[slot] != j:
                return False
    return True


def edges(project):
    """set of (from_index, to_index) read off the in-tables"""
    out = set()
    for mod in project.modules:
        if mod is None:
            continue
        for src in mod.in_links:
            if src != -1:
                out.add((src, mod.index))
    return out


def edges_out(project):
    out = set()
    for mod in project.modules:
        if mod is None:
            continue
        for dst in mod.out_links:
            if dst != -1:
                out.add((mod.index, dst))
    return out


def index_ok(project):
    """C14: modules[i].index == i, parent is the project, position 0 is the Output"""
    mods = project.modules
    if not mods or mods[0] is None or type(mods[0]).__name__ != "Output" or project.output is not mods[0]:
        return False
    for i, mod in enumerate(mods):
        if mod is None:
            continue
        if mod.index != i or mod.parent is not project:
            return False
    for pat in project.patterns:
        if pat is not None and pat.project is not project:
            return False
    return True
