"""Imported first by every generated harness (`from vf.prelude import *`).

Symbolic mode (default): installs the CrossHair plug-in, disables logging, and substitutes
the pure-Python PyFile for io.BytesIO at the places rv creates one internally.
Replay mode (VF_REPLAY=1): nothing is patched; FILE is the real io.BytesIO."""
import io as _io
import logging
import os
import types

import rv.api  # noqa: F401  (must be first: circular imports otherwise)
import rv.container
import rv.errors
import rv.modules.metamodule
import rv.modules.module
import rv.modules.sampler
from rv.api import (  # noqa: F401
    NOTE,
    NOTECMD,
    Note,
    Pattern,
    PatternClone,
    Project,
    Synth,
    m,
    read_sunvox_file,
)

from vf.symio import FaultFile, InjectedFault, PyFile  # noqa: F401

REPLAY = os.environ.get("VF_REPLAY") == "1"

if REPLAY:
    FILE = _io.BytesIO
else:
    from vf import chplug

    logging.disable(logging.CRITICAL)
    FILE = PyFile
    rv.container.BytesIO = PyFile
    rv.modules.sampler.BytesIO = PyFile
    rv.modules.metamodule.BytesIO = PyFile
    rv.modules.module.io = types.SimpleNamespace(BytesIO=PyFile)

    def _vf_int(x=0, *a, **kw):
        # int(obj) for an rv object with a Python-level __int__ (Visualization): the C-level int()
        # rejects a symbolic return value, so __int__ is called directly.
        t = type(x)
        if t.__module__.startswith("rv.") and "__int__" in t.__dict__:
            return t.__int__(x)
        return int(x, *a, **kw)

    rv.modules.module.int = _vf_int

    class _VfStrMeta(type):
        def __instancecheck__(cls, obj):
            return isinstance(obj, str)

        def __subclasscheck__(cls, sub):
            return issubclass(sub, str)

    class _vf_str(str, metaclass=_VfStrMeta):
        # str(exc) where exc carries symbolic ints (WarnOnlyRange.validate logs str(e)): the C-level
        # BaseException.__str__ rejects CrossHair's lazy string; the text only feeds a log line.
        # isinstance(x, str) keeps its meaning through the metaclass.
        def __new__(cls, x="", *a, **kw):
            if isinstance(x, BaseException):
                return "<exception text elided>"
            return str(x, *a, **kw)

    import rv.controller

    rv.controller.str = _vf_str


def save(obj):
    """real writer -> file positioned at 0"""
    f = FILE()
    obj.write_to(f)
    f.seek(0)
    return f


def save_bytes(obj):
    f = FILE()
    obj.write_to(f)
    return f.getvalue()


def load(f):
    return read_sunvox_file(f)


def load_bytes(data):
    return read_sunvox_file(FILE(bytes(data)) if REPLAY else PyFile(data))


def rt(obj):
    """real writer -> real reader"""
    return read_sunvox_file(save(obj))


def u32(v):
    return list(v.to_bytes(4, "little"))


def s32(v):
    return list(v.to_bytes(4, "little", signed=True))


def u16(v):
    return list(v.to_bytes(2, "little"))


def ck(cid, payload=()):
    payload = list(payload)
    return list(cid) + u32(len(payload)) + payload


def cat(chunks):
    return [b for c in chunks for b in c]
