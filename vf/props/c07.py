"""C07 — connecting and disconnecting keep the link tables mutually consistent."""
import itertools
import random

from vf.harness import B, R, Ob, build

EXPLANATION = (
    "C07: bounded histories through the real API.  A history is a sequence of k connect/disconnect requests over M modules; the LAST request "
    "is fully symbolic (source subset, target subset, connect/disconnect, call form) and the earlier ones are concrete members of the same "
    "request family, enumerated by the driver.  After EVERY request the link-table invariant (vf/invariants.links_ok) and edge-set == "
    "specification are asserted.  Indices select concrete module objects, so within one obligation the solver mostly decides which of the "
    "request combinations are feasible and explores each: the verdict is exhaustive over the symbolic request, inside the stated (M, k)."
)
BOUNDS = {"quick": {"M": "3 modules (Output + 2)", "k": "2 requests: first from a seeded sample of 11 of the 98 (source subset, target subset, disconnect) requests (list operands and disconnects always included), second symbolic over all 98 x 3 call forms; "
                         "plus k=3 with 4 seeded concrete prefixes"},
          "thorough": {"M": "3 (all) and 4 (seeded prefixes)", "k": "2 with every first request (98); 3 with 40 seeded prefixes of length 2"}}
OUTSIDE = ["histories longer than k requests", "more than 4 modules", "an inductive step from an arbitrary symbolic pre-state was tried in the design phase and does not terminate (evaluating the invariant over symbolic lists)"]
ASSUMPTIONS = ["operator forms: `a >> b`, `a << b` with lists via ModuleList on the left or plain lists on the right, disconnect by `~` on the right operand or on connect() arguments (a `~` on the left operand of an operator is not part of the API: DisconnectingModule defines no shift operators)"]

SETUP = '''from rv.modules import MODULE_CLASSES
from rv.modules.module import ModuleList
from rv.errors import ModuleOwnershipError
from vf.invariants import links_ok, edges, edges_out


def sel(mods, mask):
    out = []
    for i in range(len(mods)):
        if (mask // (2 ** i)) % 2 == 1:
            out.append(mods[i])
    return out


def request(p, mods, E, fs, ts, disc, form):
    """apply one request through the real API and to the specification set E"""
    F = sel(mods, fs)
    T = sel(mods, ts)
    if form == 0:
        # method call; `~` marks a disconnect request (on the source side here)
        Fa = [~x for x in F] if disc else F
        p.connect(Fa[0] if len(Fa) == 1 else Fa, T[0] if len(T) == 1 else T)
    elif form == 1:
        # F >> T ; disconnect marked on the right operand
        left = F[0] if len(F) == 1 else ModuleList(p, F)
        Ta = [~x for x in T] if disc else T
        left >> (Ta[0] if len(Ta) == 1 else Ta)
    else:
        # T << F ; disconnect marked on the right operand
        left = T[0] if len(T) == 1 else ModuleList(p, T)
        Fa = [~x for x in F] if disc else F
        left << (Fa[0] if len(Fa) == 1 else Fa)
    for f in F:
        for t in T:
            if disc:
                E.discard((f.index, t.index))
            else:
                E.add((f.index, t.index))


def good(p, E):
    return links_ok(p) and edges(p) == E and edges_out(p) == E
'''


def all_requests(M):
    return [(fs, ts, d) for fs in range(1, 2**M) for ts in range(1, 2**M) for d in (False, True)]


def history_ob(M, prefix, oid, timeout=450, form=None, disc=None):
    n = 2**M - 1
    pre_code = "\n".join(f"    request(p, mods, E, {fs}, {ts}, {d}, {form})\n    if not good(p, E):\n        return False" for fs, ts, d, form in prefix)
    body = f"""
    p = Project()
    mods = [p.output] + [p.new_module(MODULE_CLASSES["Amplifier"]) for _ in range({M - 1})]
    E = set()
{pre_code}
    request(p, mods, E, fs, ts, disc, form)
    return good(p, E)
"""
    params = [R("fs", 1, n), R("ts", 1, n), B("disc"), R("form", 0, 2)]
    if form is not None:
        body = body.replace("request(p, mods, E, fs, ts, disc, form)", f"request(p, mods, E, fs, ts, disc, {form})")
        params = params[:3]
    if disc is not None:
        body = body.replace("request(p, mods, E, fs, ts, disc, ", f"request(p, mods, E, fs, ts, {disc}, ")
        params = [x for x in params if x[0] != "disc"]
    return Ob(oid, build(params, body, setup=SETUP),
              "after every request of the history the link tables agree entry by entry on both ends and the set of connections equals what the requests ask for",
              group="history", shape=f"M={M} modules; concrete prefix {prefix} (source mask, target mask, disconnect, form); last request symbolic",
              symbolic=f"source subset 1..{n}, target subset 1..{n}, connect/disconnect, call form (method, >>, <<)", timeout=timeout)


def obligations(tier, seed):
    rnd = random.Random(seed)
    obs = []
    M = 3
    reqs = all_requests(M)
    must = [r for r in reqs if bin(r[0]).count("1") > 1 or bin(r[1]).count("1") > 1]
    if tier == "quick":
        firsts = rnd.sample(must, 8) + rnd.sample([r for r in reqs if r not in must], 3)
    else:
        firsts = reqs
    for i, (fs, ts, d) in enumerate(firsts):
        obs.append(history_ob(M, [(fs, ts, d, rnd.randrange(3))], f"k2.M3.{fs}_{ts}_{int(d)}"))
    # k = 3: concrete prefixes of length 2 that create then partially remove links (reconnect-after-disconnect)
    nk3 = 4 if tier == "quick" else 40
    for i in range(nk3):
        a = rnd.choice(must)
        a = (a[0], a[1], False)
        b_ = rnd.choice(reqs)
        obs.append(history_ob(M, [(a[0], a[1], False, rnd.randrange(3)), (b_[0], b_[1], b_[2], rnd.randrange(3))], f"k3.M3.{i}", timeout=450 if tier == "quick" else 600))
    # reconnect after disconnect: a link is made and freed (on either end), then any request follows
    for j, pre in enumerate([[(2, 4, False, 0), (2, 4, True, 0)], [(2, 1, False, 1), (4, 1, False, 0), (2, 1, True, 2)], [(6, 1, False, 0), (2, 1, True, 0)]]):
        obs.append(history_ob(M, pre, f"reconnect.M3.{j}"))
    if tier == "thorough":
        reqs4 = all_requests(4)
        # (15 x 15 x 2 x 3 last requests do not finish in one run -- measured: 17 of 24 inconclusive at 600 s -- so the call form
        # and connect/disconnect are fixed per obligation; the six together cover all last requests after that prefix)
        for i in range(6):
            a = rnd.choice(reqs4)
            pf = rnd.randrange(3)
            for form in range(3):
                for d in (False, True):
                    obs.append(history_ob(4, [(a[0], a[1], False, pf)], f"k2.M4.{i}.form{form}.{'dis' if d else 'con'}", timeout=600, form=form, disc=d))
    # list operands in which a module may appear more than once and `~` marks individual entries:
    # pairs are processed in order (a later plain entry re-connects what an earlier ~entry disconnected)
    body = """
    p = Project()
    mods = [p.output] + [p.new_module(MODULE_CLASSES["Amplifier"]) for _ in range(2)]
    E = set()
    request(p, mods, E, PF, PT, False, 0)
    if not good(p, E):
        return False
    src = mods[s_]
    ent = [(e0, d0), (e1, d1), (e2, d2)][:n]
    lst = [(~mods[e]) if d else mods[e] for e, d in ent]
    if form == 0:
        p.connect(src, lst)
    elif form == 1:
        src >> lst
    else:
        # the list on the source side
        p.connect(lst, src)
    for e, d in ent:
        pair = (src.index, mods[e].index) if form < 2 else (mods[e].index, src.index)
        if d:
            E.discard(pair)
        else:
            E.add(pair)
    return good(p, E)
"""
    for n_, form_ in ((2, 0), (2, 1), (2, 2), (3, 0), (3, 1)):
        for rep in range(1 if tier == "quick" else 4):
            pf_, pt_ = rnd.choice([(2, 4), (6, 7), (2, 5), (7, 7), (4, 3)])
            ents = [R("e0", 0, 2), B("d0"), R("e1", 0, 2), B("d1")] + ([R("e2", 0, 2), B("d2")] if n_ == 3 else [])
            obs.append(Ob(f"mixed.n{n_}.f{form_}.{rep}", build([R("s_", 0, 2)] + ents,
                                                     body.replace("[:n]", f"[:{n_}]").replace("(e2, d2)", "(e2, d2)" if n_ == 3 else "(0, False)").replace("if form == 0", f"form = {form_}\n    if form == 0"),
                                                     setup=SETUP + f"PF, PT = {pf_}, {pt_}\n"),
                          "a list operand with repeated modules and individually ~-marked entries is processed pair by pair in order; tables stay consistent and the edge set is what the sequence asks for",
                          group="mixed", shape=f"M=3; seeded prefix request (source mask {pf_}, target mask {pt_}); list of {n_} entries; form {['connect(src, list)', 'src >> list', 'connect(list, src)'][form_]}",
                          symbolic="source module, each list entry (module, ~ or not)", timeout=400 if tier == "quick" else 800))
    # cross-project operands are refused and change nothing
    body = """
    p = Project()
    q = Project()
    mods = [p.output, p.new_module(MODULE_CLASSES["Amplifier"]), p.new_module(MODULE_CLASSES["Amplifier"])]
    other = q.new_module(MODULE_CLASSES["Amplifier"])
    E = set()
    request(p, mods, E, 2, 1, False, 0)
    before = (list(mods[0].in_links), list(mods[1].out_links), list(other.in_links), list(other.out_links))
    F = sel(mods, fs)
    try:
        if form == 0:
            p.connect(F[0] if len(F) == 1 else F, ~other if disc else other)
        elif form == 1:
            (F[0] if len(F) == 1 else ModuleList(p, F)) >> (~other if disc else other)
        else:
            other2 = ~other if disc else other
            if side:
                p.connect(other2, F[0] if len(F) == 1 else F)
            else:
                mods[1] << other2
    except ModuleOwnershipError:
        after = (list(mods[0].in_links), list(mods[1].out_links), list(other.in_links), list(other.out_links))
        return after == before and good(p, E) and links_ok(q)
    return False
"""
    obs.append(Ob("cross_project", build([R("fs", 1, 7), B("disc"), R("form", 0, 2), B("side")], body, setup=SETUP),
                  "linking modules of different projects is refused with ModuleOwnershipError and no table changes", group="ownership",
                  shape="two projects; one existing link", symbolic="source subset, connect/disconnect, call form, operand side", timeout=240))
    return obs
