#!/venv/bin/python
# Replay of a solver counterexample against the real library: no CrossHair, no stubs, real io.BytesIO.
# property C09  obligation range.stale.FM.c_volume
# FM, controllers ['c_volume', 'm_volume', 'panning', 'c_freq_ratio', 'm_freq_ratio', 'm_self_modulation']: whatever integer w the module already stores (leniently stored values may be out of range), a strict assignment of v is accepted iff min <= v <= max, otherwise ControllerValueError and the stored value remains
# exit 1 = the property fails for this input on the current /repo tree; exit 0 = it holds.
import os, sys
os.environ["VF_REPLAY"] = "1"
sys.path.insert(0, "/verif")
ARGS = (257, 257)
KWARGS = {}
HARNESS = 'from vf.prelude import *\nfrom rv.modules import MODULE_CLASSES\nfrom rv.errors import ControllerValueError, override_raise_controller_value_errors\nCLS = MODULE_CLASSES[\'FM\']\n\n\ndef h(w: int, v: int) -> bool:\n    """\n    post: _\n    """\n    mod = CLS()\n    with override_raise_controller_value_errors(False):\n        mod.c_volume = w\n    before = mod.c_volume\n    try:\n        mod.c_volume = v\n    except ControllerValueError:\n        if 0 <= v <= 256 or mod.c_volume != before:\n            return False\n    else:\n        if not (0 <= v <= 256) or mod.c_volume != v:\n            return False\n    with override_raise_controller_value_errors(False):\n        mod.m_volume = w\n    before = mod.m_volume\n    try:\n        mod.m_volume = v\n    except ControllerValueError:\n        if 0 <= v <= 256 or mod.m_volume != before:\n            return False\n    else:\n        if not (0 <= v <= 256) or mod.m_volume != v:\n            return False\n    with override_raise_controller_value_errors(False):\n        mod.panning = w\n    before = mod.panning\n    try:\n        mod.panning = v\n    except ControllerValueError:\n        if -128 <= v <= 128 or mod.panning != before:\n            return False\n    else:\n        if not (-128 <= v <= 128) or mod.panning != v:\n            return False\n    with override_raise_controller_value_errors(False):\n        mod.c_freq_ratio = w\n    before = mod.c_freq_ratio\n    try:\n        mod.c_freq_ratio = v\n    except ControllerValueError:\n        if 0 <= v <= 16 or mod.c_freq_ratio != before:\n            return False\n    else:\n        if not (0 <= v <= 16) or mod.c_freq_ratio != v:\n            return False\n    with override_raise_controller_value_errors(False):\n        mod.m_freq_ratio = w\n    before = mod.m_freq_ratio\n    try:\n        mod.m_freq_ratio = v\n    except ControllerValueError:\n        if 0 <= v <= 16 or mod.m_freq_ratio != before:\n            return False\n    else:\n        if not (0 <= v <= 16) or mod.m_freq_ratio != v:\n            return False\n    with override_raise_controller_value_errors(False):\n        mod.m_self_modulation = w\n    before = mod.m_self_modulation\n    try:\n        mod.m_self_modulation = v\n    except ControllerValueError:\n        if 0 <= v <= 256 or mod.m_self_modulation != before:\n            return False\n    else:\n        if not (0 <= v <= 256) or mod.m_self_modulation != v:\n            return False\n    return True\n\n\ndef h__reach(w: int, v: int) -> bool:\n    """\n    post: _\n    """\n    h(w, v)\n    return False\n'
ns = {"__name__": "vf_replay"}
exec(compile(HARNESS, "<harness range.stale.FM.c_volume>", "exec"), ns)
try:
    ok = ns['h'](*ARGS, **KWARGS)
except Exception as e:
    import traceback; traceback.print_exc()
    print("replay: raised", type(e).__name__, e)
    sys.exit(1)
print("replay: h(*%r, **%r) returned %r" % (ARGS, KWARGS, ok))
sys.exit(0 if ok else 1)
