#!/venv/bin/python
# Replay of a solver counterexample against the real library: no CrossHair, no stubs, real io.BytesIO.
# property C04  obligation nested.lenient
# a file with a MetaModule and stored controller values outside the known ranges (in the embedded project, on the MetaModule itself and on a later module) is decoded value by value
# exit 1 = the property fails for this input on the current /repo tree; exit 0 = it holds.
import os, sys
os.environ["VF_REPLAY"] = "1"
sys.path.insert(0, "/verif")
ARGS = (0, 1001, 0)
KWARGS = {}
HARNESS = 'from vf.prelude import *\nfrom rv.modules import MODULE_CLASSES\nfrom vf import refformat as RF\nfrom vf.invariants import *\n\n\ndef snap_any(o):\n    if hasattr(o, "modules"):\n        return snap_project(o)\n    return [("synth_version", tuple(o.loaded_sunsynth_version))] + snap_module(o.module)\n\n\ndef pick(seq, sel):\n    """seq[sel] for a symbolic selector, as a forked linear search (concrete on every path)"""\n    for i in range(len(seq)):\n        if sel == i:\n            return i\n    return len(seq) - 1\n\n\ndef h(w_vol: int, w_bpm: int, iv: int) -> bool:\n    """\n    pre: (0 <= w_vol <= 2147483647) and (0 <= w_bpm <= 2147483647) and (0 <= iv <= 2147483647)\n    post: _\n    """\n    inner = RF.enc_project(modules=[RF.enc_output(), RF.enc_module("Amplifier", flags=0x51, in_project=True, cvals=[iv])])\n    mm = RF.enc_module("MetaModule", flags=0x8051, in_project=True, cvals=[256, 1, 0, w_bpm, 6], chunks=[(0, inner), (1, [0] * 384), (2, [0] * 8)], chnk=104)\n    amp = RF.enc_module("Amplifier", flags=0x51, in_project=True, cvals=[w_vol, 128])\n    p = load_bytes(RF.enc_project(modules=[RF.enc_output(), mm, amp]))\n    m1, m2 = p.modules[1], p.modules[2]\n    return (m2.volume == w_vol and m2.balance == 0 and m2.dc_offset == 0 and m1.bpm == w_bpm and m1.project.modules[1].volume == iv\n            and type(m1).__name__ == "MetaModule" and len(p.modules) == 3)\n\n\ndef h__reach(w_vol: int, w_bpm: int, iv: int) -> bool:\n    """\n    pre: (0 <= w_vol <= 2147483647) and (0 <= w_bpm <= 2147483647) and (0 <= iv <= 2147483647)\n    post: _\n    """\n    h(w_vol, w_bpm, iv)\n    return False\n'
ns = {"__name__": "vf_replay"}
exec(compile(HARNESS, "<harness nested.lenient>", "exec"), ns)
try:
    ok = ns['h'](*ARGS, **KWARGS)
except Exception as e:
    import traceback; traceback.print_exc()
    print("replay: raised", type(e).__name__, e)
    sys.exit(1)
print("replay: h(*%r, **%r) returned %r" % (ARGS, KWARGS, ok))
sys.exit(0 if ok else 1)
