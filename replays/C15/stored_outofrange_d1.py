#!/venv/bin/python
# Replay of a solver counterexample against the real library: no CrossHair, no stubs, real io.BytesIO.
# property C15  obligation stored.outofrange.d1
# depth 1: a stored user-defined value outside the mapped controller's range loads (also after the nested load) and is preserved by save/load
# exit 1 = the property fails for this input on the current /repo tree; exit 0 = it holds.
import os, sys
os.environ["VF_REPLAY"] = "1"
sys.path.insert(0, "/verif")
ARGS = (0, -128, 0, -16384, 0, 0, 1280)
KWARGS = {}
HARNESS = 'from vf.prelude import *\nfrom rv.modules import MODULE_CLASSES\nfrom vf.invariants import *\nfrom vf import refformat as RF\nMM = MODULE_CLASSES["MetaModule"]\nAMP = MODULE_CLASSES["Amplifier"]\nGEN = MODULE_CLASSES["Generator"]\nMS = MODULE_CLASSES["MultiSynth"]\nG = ("type", "common_synth", "midi", "ctl", "opt", "cmid", "payload")\n\n\ndef h(vol: int, bal: int, tr: int, bdc: int, bpm: int, nv: int, w: int) -> bool:\n    """\n    pre: (0 <= vol <= 1024) and (-128 <= bal <= 128) and (-128 <= tr <= 128) and (-16384 <= bdc <= 16384) and (0 <= bpm <= 4294967295) and (0 <= nv <= 65535)\n    pre: (0 <= w <= 2147483647)\n    post: _\n    """\n    mm = MM()\n    mm_a = mm.project.new_module(AMP)\n    mm_g = mm.project.new_module(GEN)\n    mm_s = mm.project.new_module(MS)\n    mm_a.volume = vol\n    mm_a.balance = bal\n    mm_s.transpose = tr\n    mm_a.bipolar_dc_offset = bdc\n    mm_a.inverse = False\n    mm_g.waveform = GEN.controllers[\'waveform\'].value_type(0)\n    mm.project.initial_bpm = bpm\n    mm_a >> mm.project.output\n    mm_pat = Pattern(lines=1, tracks=1)\n    mm.project.attach_pattern(mm_pat)\n    mm_pat.data[0][0].val = nv\n    mm.user_defined_controllers = 2\n    mm.mappings.values[0] = MM.Mapping((1, 0))\n    mm.mappings.values[1] = MM.Mapping((1, 1))\n    mm.update_user_defined_controllers()\n    data = list(save_bytes(Synth(mm)))\n    # replace the 6th stored controller value (user-defined #1, mapped to Amplifier.volume 0..1024) by an arbitrary word\n    ch = RF.walk(data)\n    cv = [i for i, (cid, pl) in enumerate(ch) if cid == b"CVAL"]\n    if len(cv) != 7:\n        return False\n    out = []\n    for i, (cid, pl) in enumerate(ch):\n        out += RF.ck(cid, RF.u32(w) if i == cv[5] else pl)\n    m2 = load_bytes(out).module\n    if m2.user_defined_controllers != 2 or m2.get_raw("user_defined_1") != w:\n        return False\n    m3 = rt(Synth(m2)).module\n    return m3.get_raw("user_defined_1") == w and m3.get_raw("user_defined_2") == m2.get_raw("user_defined_2")\n\n\ndef h__reach(vol: int, bal: int, tr: int, bdc: int, bpm: int, nv: int, w: int) -> bool:\n    """\n    pre: (0 <= vol <= 1024) and (-128 <= bal <= 128) and (-128 <= tr <= 128) and (-16384 <= bdc <= 16384) and (0 <= bpm <= 4294967295) and (0 <= nv <= 65535)\n    pre: (0 <= w <= 2147483647)\n    post: _\n    """\n    h(vol, bal, tr, bdc, bpm, nv, w)\n    return False\n'
ns = {"__name__": "vf_replay"}
exec(compile(HARNESS, "<harness stored.outofrange.d1>", "exec"), ns)
try:
    ok = ns['h'](*ARGS, **KWARGS)
except Exception as e:
    import traceback; traceback.print_exc()
    print("replay: raised", type(e).__name__, e)
    sys.exit(1)
print("replay: h(*%r, **%r) returned %r" % (ARGS, KWARGS, ok))
sys.exit(0 if ok else 1)
