"""C17 — objects are isolated: no hidden shared state between instances or clones."""
import random

from vf import modgen
from vf.harness import B, I8, R, U8, U16, U32, Ob, build
from vf.modgen import SETUP, cls_expr

EXPLANATION = (
    "C17: pairs (A, B) with B obtained by construction, by the real clone(), or by loading the bytes A was saved to.  A is then mutated through the public "
    "API with SYMBOLIC values in every attribute group (every range controller, options, bindings, common settings, list-valued payload elements, links, notes, "
    "labels, envelope points, sample fields) and B's observable snapshot and saved bytes are compared before/after.  Aliasing is structural, so one symbolic run "
    "per (pair kind, type) decides it for all values: a shared list/dict would carry A's symbolic value into B's snapshot."
)
BOUNDS = {"quick": {"types": "all 43 types x {fresh instance, clone (both directions), loaded from the same bytes}", "mutations": "every range controller (symbolic), every bool/enum controller and option (flipped), CMID, common settings, 3 payload positions per array, sampler/metamodule specifics",
                    "projects": "two projects: modules, links, patterns, notes; Project.clone()", "legacy samplers": "a REF-ENC legacy instrument loaded as B, a second legacy and a modern instrument loaded and mutated afterwards"},
          "thorough": {"types": "as quick", "mutations": "as quick with 8 payload positions", "projects": "as quick"}}
OUTSIDE = ["state reachable only through private attributes", "sequences of mutations longer than one pass over all attribute groups"]
ASSUMPTIONS = []

PAY = {
    "MultiSynth": ["nv_curve", "vv_curve", "np_curve"], "MultiCtl": ["curve"], "WaveShaper": ["curve"],
    "SpectraVoice": ["harmonic_freqs", "harmonic_volumes", "harmonic_widths"], "FMX": ["custom_waveform"],
}


def mutate_code(mt, rnd, tier, var="a"):
    """-> (params, lines) mutating every attribute group of module `var`"""
    from rv.modules import MODULE_CLASSES
    cls = MODULE_CLASSES[mt]
    only = ["volume", "input_module", "play_patterns", "bpm", "tpl"] if mt == "MetaModule" else None
    items = modgen.items_controllers(mt, var=var, rnd=rnd, only=only, enums_symbolic=False)
    items += modgen.items_options(mt, var=var, skip=("user_defined_controllers",))
    items += modgen.items_cmid(mt, var=var, rnd=rnd, max_ctls=4) if mt != "MetaModule" else []
    items += modgen.items_common(mt, var=var, in_project=False)
    items += modgen.items_midi(mt, var=var)
    # symbolic: fork-free items only (ranges, u8/u16/u32); everything else takes a seeded concrete value
    sym = [i for i, it in enumerate(items) if it.param is not None and it.forks == 1][:40]
    g = modgen.render(items, sym, rnd)
    params, lines = list(g.params), list(g.lines)
    npos = 3 if tier == "quick" else 8
    for attr in PAY.get(mt, []):
        n = len(getattr(cls(), attr).values)
        for p in sorted(rnd.sample(range(n), npos)):
            if mt == "FMX":
                lines.append(f"{var}.{attr}.values[{p}] = 0.5")
            else:
                params.append(U8(f"e_{attr}_{p}"))
                lines.append(f"{var}.{attr}.values[{p}] = e_{attr}_{p}")
    if mt == "MultiCtl":
        params += [U32("mp0"), U32("mp1")]
        lines.append(f"{var}.mappings.values[3].min = mp0")
        lines.append(f"{var}.mappings.values[3].max = mp1")
        lines.append(f"{var}.mappings.values[5] = type({var}).Mapping((mp1, mp0, 1, 0, 0, 0, 0, 0))")
    if mt in ("Generator", "Analog generator"):
        params.append(R("dw", 0, 127))
        lines.append(f"{var}.drawn_waveform.samples[7] = dw")
        lines.append(f"{var}.drawn_waveform.samples.append(1)")
        lines.append(f"{var}.drawn_waveform.samples.pop()")
    if mt == "SpectraVoice":
        params.append(U8("hv"))
        lines.append(f"{var}.harmonics[2].volume = hv")
        lines.append(f"{var}.harmonics[2].type = type({var}).HarmonicType(1)")
    if mt == "Vorbis player":
        params.append(U8("vb"))
        lines.append(f"{var}.data = bytes([vb, 1, 2])")
    if mt == "Sampler":
        params += [U16("ex"), R("ey", 0, 0x8000), U8("ns"), U8("sv")]
        lines += [
            f"{var}.volume_envelope.points[1] = (ex, ey)",
            f"{var}.volume_envelope.points.append((ex, ey))",
            f"{var}.panning_envelope.sustain_point = 2",
            f"{var}.effect_control_envelopes[1].points.append((ex, ey))",
            f"{var}.effect_control_envelopes[2].enable = True",
            f"{var}.note_samples[NOTE.C4] = ns",
            f"_s = type({var}).Sample()",
            f"_s.data = bytes([sv, 2])",
            f"_s.format = type({var}).Format.int8",
            f"_s.channels = type({var}).Channels.mono",
            f"_s.volume = sv",
            f"{var}.samples[5] = _s",
            f"{var}.editor_cursor = 7",
            f"{var}.instrument_name = b'xyz'",
        ]
    if mt == "MetaModule":
        params += [U16("um"), R("uv", 0, 1024)]
        lines += [
            f"{var}.project.new_module(MODULE_CLASSES['Amplifier'], volume=uv)",
            f"{var}.user_defined_controllers = 2",
            f"{var}.mappings.values[0].module = 1",
            f"{var}.mappings.values[0].controller = 0",
            f"{var}.mappings.values[1] = type({var}).Mapping((um, 3))",
            f"{var}.user_defined[0].label = 'lbl'",
            f"{var}.project.initial_bpm = 77",
            f"{var}.project.name = 'inner'",
        ]
    return params, lines


GROUPS = '("type", "common_synth", "midi", "ctl", "opt", "cmid", "payload")'


def obligations(tier, seed):
    rnd = random.Random(seed)
    from rv.modules import MODULE_CLASSES
    obs = []
    for mt in MODULE_CLASSES:
        if mt == "Output":
            continue
        for kind in ("fresh", "clone", "clone_rev", "load"):
            params, lines = mutate_code(mt, rnd, tier)
            code = "\n".join("    " + l for l in lines)
            if kind == "fresh":
                mk = f"    a = {cls_expr(mt)}()\n    b = {cls_expr(mt)}()"
            elif kind == "clone":
                mk = f"    a = {cls_expr(mt)}()\n    b = a.clone()"
            elif kind == "clone_rev":
                mk = f"    b = {cls_expr(mt)}()\n    a = b.clone()"
            else:
                mk = f"    _src = {cls_expr(mt)}()\n    _bytes = save_bytes(Synth(_src))\n    a = load_bytes(_bytes).module\n    b = load_bytes(_bytes).module"
            body = f"""
{mk}
    s0 = snap_module(b, groups={GROUPS})
    y0 = save_bytes(Synth(b))
{code}
    s1 = snap_module(b, groups={GROUPS})
    y1 = save_bytes(Synth(b))
    return same(s0, s1) and y0 == y1 and a is not b
"""
            if not params:
                params = [U8("unused")]
            obs.append(Ob(f"mod.{kind}.{mt}", build(params, body, setup=SETUP), f"{mt}: mutating A leaves B's observable state and saved bytes unchanged (B = " +
                          {"fresh": "another fresh instance", "clone": "A.clone()", "clone_rev": "the original A was cloned from", "load": "loaded from the same bytes as A"}[kind] + ")",
                          group=kind, shape=f"{mt}; B is {kind}; all attribute groups of A mutated", symbolic=f"{len(params)} symbolic values (range controllers, bindings, common settings, payload elements)", timeout=240))
    # pairs loaded twice from a SHIPPED fixture (files written by SunVox itself can be shorter than what rv writes: e.g. 64-entry
    # mapping tables that the loader pads), mutated in place incl. the padded positions
    import glob
    import os
    fx = sorted(f for f in glob.glob("/repo/tests/files/*.sunsynth") if os.path.getsize(f) <= 3000)
    must = [f for f in fx if os.path.basename(f) in ("metamodule.sunsynth", "sampler.sunsynth", "multictl.sunsynth")]
    for path in (must + rnd.sample([f for f in fx if f not in must], 5) if tier == "quick" else fx):
        import rv.api as _api
        mt = _api.read_sunvox_file(path).module.mtype
        params, lines = mutate_code(mt, rnd, tier)
        if mt == "MetaModule":
            params += [U16("pm")]
            lines += ["a.mappings.values[70].module = pm", "a.mappings.values[95].controller = pm", "a.mappings.values[10].module = pm"]
        code = "\n".join("    " + l for l in lines)
        data = open(path, "rb").read()
        body = f"""
    a = load_bytes(DATA).module
    b = load_bytes(DATA).module
    s0 = snap_module(b, groups={GROUPS}) + [("all_mappings", [(x.module, x.controller) for x in b.mappings.values] if hasattr(b, "mappings") and type(b).__name__ == "MetaModule" else 0)]
    y0 = save_bytes(Synth(b))
{code}
    c = load_bytes(DATA).module
    s1 = snap_module(b, groups={GROUPS}) + [("all_mappings", [(x.module, x.controller) for x in b.mappings.values] if hasattr(b, "mappings") and type(b).__name__ == "MetaModule" else 0)]
    s2 = snap_module(c, groups={GROUPS}) + [("all_mappings", [(x.module, x.controller) for x in c.mappings.values] if hasattr(c, "mappings") and type(c).__name__ == "MetaModule" else 0)]
    return same(s0, s1) and same(s0, s2) and y0 == save_bytes(Synth(b))
"""
        if not params:
            params = [U8("unused")]
        obs.append(Ob(f"fixture.{os.path.basename(path).split('.')[0]}", build(params, body, setup=SETUP + f"DATA = {data!r}\n"),
                      f"{os.path.basename(path)} loaded twice: mutating one copy (every attribute group, in place) changes neither the other copy nor a copy loaded afterwards",
                      group="fixture", shape=f"fixture {os.path.basename(path)} ({mt}) loaded three times", symbolic=f"{len(params)} symbolic values", timeout=300))
    # concrete twins of the pair obligations (engine C).  Aliasing is structural, so a concrete run decides it as well as a symbolic
    # one; the twin exists because CrossHair itself bypasses functools caches (crosshair/libimpl/functoolslib.py), so state shared
    # through a cache would be invisible to the symbolic run.
    def concretise(params, rnd_):
        out = []
        for n_, t_, pre_ in params:
            if t_ == "bool":
                out.append(f"    {n_} = {rnd_.choice([True, False])}")
            else:
                import re as _re
                nums = [int(x) for x in _re.findall(r"-?\d+", pre_ or "0 1")]
                lo_, hi_ = (min(nums), max(nums)) if nums else (0, 1)
                out.append(f"    {n_} = {rnd_.randint(lo_, min(hi_, lo_ + 200))}")
        return "\n".join(out)
    for path in fx if tier == "thorough" else must:
        import rv.api as _api
        mt = _api.read_sunvox_file(path).module.mtype
        params, lines = mutate_code(mt, rnd, tier)
        code = "\n".join("    " + l for l in lines)
        data = open(path, "rb").read()
        src = "from vf.prelude import *\n" + SETUP + f"DATA = {data!r}\n" + f"""

def h():
{concretise(params, rnd)}
    a = load_bytes(DATA).module
    b = load_bytes(DATA).module
    s0 = snap_module(b, groups={GROUPS})
    y0 = save_bytes(Synth(b))
    c1 = a.clone()
    c2 = a.clone()
    sc = snap_module(c2, groups={GROUPS})
{code}
    c = load_bytes(DATA).module
    ok = same(s0, snap_module(b, groups={GROUPS})) and same(s0, snap_module(c, groups={GROUPS})) and y0 == save_bytes(Synth(b))
    # clones taken before the mutation are independent of the original and of each other
    return ok and same(sc, snap_module(c1, groups={GROUPS})) and same(sc, snap_module(c2, groups={GROUPS}))
"""
        obs.append(Ob(f"concrete.fixture.{os.path.basename(path).split('.')[0]}", src, f"{os.path.basename(path)}: concrete twin of the fixture-pair obligation, plus two clones taken before the mutation (real functools caches in force)",
                      engine="C", group="fixture", shape=f"fixture {os.path.basename(path)} loaded three times, cloned twice; seeded concrete mutation values"))
    # legacy (pre-envelope) sampler instruments are saved by replaying the chunks they were loaded from: that replay store must be
    # per instance.  B is a legacy instrument (REF-ENC, symbolic point bytes); loading other instruments (legacy and modern) and
    # mutating one of them must change neither B's snapshot nor its saved bytes nor what a fresh Sampler saves.
    body = """
    from vf import refformat as RF
    def legacy(x, y, smp):
        rec = RF.sampler_record(sign=b"\\0\\0\\0\\0", version=0, with_tail=False, vol_points=[x, y] + [0] * 22, pan_points=[0] * 24, nvol=1, npan=0,
                                vol_flags=1, pan_flags=0, vol_sus=0, pan_sus=0, vib_depth=9, fadeout=300)
        return RF.enc_synth("Sampler", flags=0x8459, cvals=[256, 128, 1, 1, 8, 4, 128, 0], chunks=[(0, rec), (1, [0] * 40), (2, smp, 1, 8000)], chnk=0x10B)
    SMP = MODULE_CLASSES["Sampler"]
    f0 = save_bytes(Synth(SMP()))
    b = load_bytes(legacy(x1, y1, [1, 2, 3, 4])).module
    s0 = snap_module(b, groups=("type", "common", "ctl", "opt", "payload"))
    y0 = save_bytes(Synth(b))
    a = load_bytes(legacy(x2, y2, [5, 6])).module
    m_ = load_bytes(save_bytes(Synth(SMP(volume=v)))).module
    a.volume = v
    a.volume_envelope.points.append((x2, 0))
    s1 = snap_module(b, groups=("type", "common", "ctl", "opt", "payload"))
    if not same(s0, s1) or save_bytes(Synth(b)) != y0:
        return False
    u = load_bytes(y0).module
    return same(s0, snap_module(u, groups=("type", "common", "ctl", "opt", "payload"))) and save_bytes(Synth(SMP())) == f0 and b.volume_envelope.points == [(x1, y1 * 0x200)]
"""
    obs.append(Ob("legacy.sampler", build([U16("x1"), R("y1", 0, 0x40), U16("x2"), R("y2", 0, 0x40), R("v", 0, 512)], body, setup=SETUP),
                  "a loaded legacy sampler instrument keeps its state and its saved bytes while other instruments (legacy and modern) are loaded and mutated; fresh Samplers are unaffected",
                  group="fixture", shape="REF-ENC legacy record loaded as B, then a second legacy instrument and a modern one loaded; one mutated", symbolic="legacy point bytes of both instruments, a controller value", timeout=300))
    # cross-type pairs that share a chunk class
    for a_t, b_t, mut in (("Generator", "Analog generator", "a.drawn_waveform.samples[3] = v"), ("Analog generator", "Generator", "a.drawn_waveform.samples[3] = v"),
                          ("MultiCtl", "WaveShaper", "a.curve.values[9] = v"), ("WaveShaper", "MultiCtl", "a.curve.values[9] = v"),
                          ("MultiSynth", "MultiSynth", "a.np_curve.values[4] = v")):
        body = f"""
    a = {cls_expr(a_t)}()
    b = {cls_expr(b_t)}()
    c = {cls_expr(a_t)}()
    s0 = snap_module(b, groups={GROUPS}) + snap_module(c, groups={GROUPS})
    {mut}
    d = {cls_expr(a_t)}()
    s1 = snap_module(b, groups={GROUPS}) + snap_module(c, groups={GROUPS})
    return same(s0, s1) and same(snap_module(c, groups={GROUPS}), snap_module(d, groups={GROUPS}))
"""
        obs.append(Ob(f"cross.{a_t}.{b_t}", build([R("v", 0, 127)], body, setup=SETUP), f"mutating a {a_t}'s list payload changes neither a {b_t}, nor another {a_t}, nor the defaults of instances created afterwards",
                      group="cross", shape=f"{a_t} vs {b_t}", symbolic="new element value", timeout=120))
    # two MetaModules' user-defined controllers (attach flag lives on per-instance controllers)
    body = f"""
    a = {cls_expr("MetaModule")}()
    b = {cls_expr("MetaModule")}()
    s0 = snap_module(b, groups={GROUPS})
    a.user_defined_controllers = n
    a.user_defined[0].label = "x"
    a.controller_values["user_defined_1"] = v
    s1 = snap_module(b, groups={GROUPS})
    return same(s0, s1) and b.user_defined_controllers == 0 and not any(c.attached(b) for c in b.user_defined) and b.user_defined[0].label is None
"""
    obs.append(Ob("cross.MetaModule.user_defined", build([R("n", 1, 3), R("v", 0, 32768)], body, setup=SETUP), "attaching/labelling/setting user-defined controllers on one MetaModule does not touch another",
                  group="cross", shape="two MetaModules", symbolic="count 1..3, value", timeout=240))
    # projects
    body = f"""
    pa = Project()
    pb = Project()
    ma = pa.new_module({cls_expr("Amplifier")})
    mb = pb.new_module({cls_expr("Amplifier")})
    pat_b = Pattern(lines=1, tracks=2)
    pb.attach_pattern(pat_b)
    mb >> pb.output
    s0 = snap_project(pb)
    y0 = save_bytes(pb)
    ma >> pa.output
    ma.volume = v
    pa.initial_bpm = w
    pa.name = "other"
    pat_a = Pattern(lines=1, tracks=2)
    pa.attach_pattern(pat_a)
    pat_a.data[0][1].vel = nv
    pat_a.data[0][1].val = nw
    pa.output.x = 3
    pc = pa.clone()
    pc.modules[1].volume = 5
    pc.patterns[0].data[0][0].vel = 9
    pc.modules[1] >> pc.modules[0]
    s1 = snap_project(pb)
    y1 = save_bytes(pb)
    return same(s0, s1) and y0 == y1 and pa.modules[1].volume == v and pa.patterns[0].data[0][0].vel == 0
"""
    obs.append(Ob("project.pair", build([R("v", 0, 1024), U32("w"), R("nv", 0, 129), U16("nw")], body, setup=SETUP), "mutating one project (modules, links, header, patterns, notes) and its clone leaves another project and the original untouched",
                  group="project", shape="two projects + Project.clone()", symbolic="controller value, header field, note fields", timeout=240))
    return obs
