"""C11 — module options pack into disjoint bits and read back exactly."""
import itertools
import random

from vf import spec
from vf.harness import B, INT, R, Ob, build
from vf.modgen import cls_expr

EXPLANATION = (
    "C11: for each option-bearing type the options that share a byte of the options record are symbolic all at once (options of other "
    "bytes hold seeded values), written by the real Synth writer and read back by the real reader: every option must read back its own "
    "value whatever the others hold -- disjointness is decided from the real packing code, not from the declared bit numbers.  The same "
    "bytes are decoded by the independent REF-DEC with the YAML layout (each option at its declared byte/bit, record covers the highest byte)."
)
BOUNDS = {"quick": {"types": "the 5 option-bearing types, all 49 options", "groups": "all options of one byte together; bytes with one option in chunks of 4; 6 seeded cross-group pairs per type",
                    "values": "every representable value (2^size) of every symbolic option", "clamp": "v over all integers"},
          "thorough": {"types": "as quick", "groups": "additionally every pair of options of every type symbolic together", "values": "as quick"}}
OUTSIDE = ["three or more options of *different* bytes symbolic at the same time beyond the listed groups (different bytes are different list elements of the record)"]
ASSUMPTIONS = ["option layout (byte, bit, size, inversion, exclusivity, bounds) of specs/fileformat.yaml is the reference"]

SETUP = "from rv.modules import MODULE_CLASSES\nfrom vf import refformat as RF\n"


def _groups(sp, tier, rnd):
    opts = sp["options"]
    bybyte = {}
    for o in opts:
        bybyte.setdefault(o["byte"], []).append(o["name"])
    groups = []
    singles = []
    for b, names in sorted(bybyte.items()):
        if len(names) > 1:
            groups.append(names)
        else:
            singles += names
    for i in range(0, len(singles), 4):
        groups.append(singles[i:i + 4])
    names = [o["name"] for o in opts]
    pairs = [[a, b] for a, b in itertools.combinations(names, 2) if not any(a in g and b in g for g in groups)]
    if tier == "thorough":
        groups += pairs
    else:
        groups += rnd.sample(pairs, min(6, len(pairs)))
    return groups


def obligations(tier, seed):
    rnd = random.Random(seed)
    S = spec.load()
    obs = []
    for mt, sp in S.items():
        if not sp["options"]:
            continue
        omap = {o["name"]: o for o in sp["options"]}
        maxbyte = max(o["byte"] for o in sp["options"])
        chnm = sp["options_chnm"]
        for gi, grp in enumerate(_groups(sp, tier, rnd)):
            params, lines = [], []
            for o in sp["options"]:
                n = o["name"]
                if n == "user_defined_controllers":
                    # shape parameter of MetaModule serialisation (forks 97 ways when symbolic): cycled concretely
                    lines.append(f"mod.{n} = {rnd.choice([0, 1, 2, 95, 96])}")
                    continue
                if n in grp:
                    if o["size"] == 1:
                        params.append(B("o_" + n))
                    else:
                        params.append(R("o_" + n, 0, 2 ** o["size"] - 1))
                    lines.append(f"mod.{n} = o_{n}")
                else:
                    v = rnd.choice([True, False]) if o["size"] == 1 else rnd.randint(0, 2 ** o["size"] - 1)
                    lines.append(f"mod.{n} = {v!r}")
            code = "\n".join("    " + l for l in lines)
            # expected logical values are read from the original object after all assignments
            # (exclusive options switch their partner off)
            names = [o["name"] for o in sp["options"]]
            exp = "\n".join(f"    e_{n} = mod.{n}" for n in names)
            cmpm = " and ".join(f"m2.{n} == e_{n}" for n in names)
            # REF-DEC: each option at its YAML byte/bit; inverted options store the complement
            dec = []
            for o in sp["options"]:
                stored = f"RF.option_field(chdt, {o['byte']}, {o['bit']}, {o['size']})"
                if o["size"] == 1:
                    want = f"(0 if e_{o['name']} else 1)" if o["inverted"] else f"(1 if e_{o['name']} else 0)"
                else:
                    want = f"e_{o['name']}"
                dec.append(f"    if {stored} != {want}:\n        return False")
            dec = "\n".join(dec)
            body = f"""
    mod = {cls_expr(mt)}()
{code}
{exp}
    data = save_bytes(Synth(mod))
    m2 = load_bytes(data).module
    if not ({cmpm}):
        return False
    ver, md = RF.decode_synth(data)
    recs = [c for c in md["chunks"] if c["chnm"] == {chnm}]
    if len(recs) != 1:
        return False
    chdt = recs[0]["chdt"]
    if len(chdt) <= {maxbyte}:
        return False
{dec}
    return True
"""
            obs.append(Ob(f"pack.{mt}.g{gi}", build(params, body, setup=SETUP),
                          f"{mt}: options {grp} hold any representable values while the others hold seeded values: every option reads back its own value after save/load, "
                          f"the options record (CHNM {chnm}) covers byte {maxbyte} and REF-DEC finds every option at its YAML byte/bit (inverted ones complemented)",
                          group="pack", shape=f"Synth({mt}); symbolic group {grp}", symbolic="every representable value of each option of the group", timeout=240))
        # options changed on a LOADED module (its options record carried other values): the new values are what gets saved
        names_all = [o["name"] for o in sp["options"] if o["name"] != "user_defined_controllers"]
        for gi in range(0, len(names_all), 4):
            grp = names_all[gi:gi + 4]
            first, params, second = [], [], []
            for o in sp["options"]:
                n = o["name"]
                if n == "user_defined_controllers":
                    continue
                # loaded state: every bit set (booleans True, multi-bit all ones) / or seeded
                v1 = (True if o["size"] == 1 else 2 ** o["size"] - 1) if rnd.random() < 0.7 else (rnd.choice([True, False]) if o["size"] == 1 else rnd.randint(0, 2 ** o["size"] - 1))
                first.append(f"src.{n} = {v1!r}")
                if n in grp:
                    params.append(B("o_" + n) if o["size"] == 1 else R("o_" + n, 0, 2 ** o["size"] - 1))
                    second.append(f"mod.{n} = o_{n}")
            c1 = "\n".join("    " + l for l in first)
            c2 = "\n".join("    " + l for l in second)
            names = [o["name"] for o in sp["options"]]
            exp = "\n".join(f"    e_{n} = mod.{n}" for n in names)
            cmpm = " and ".join(f"m2.{n} == e_{n}" for n in names)
            body = f"""
    src = {cls_expr(mt)}()
{c1}
    mod = rt(Synth(src)).module
{c2}
{exp}
    m2 = rt(Synth(mod)).module
    m3 = mod.clone()
    return {cmpm} and {cmpm.replace('m2.', 'm3.')}
"""
            obs.append(Ob(f"reload.{mt}.g{gi // 4}", build(params, body, setup=SETUP), f"{mt}: options {grp} changed on a module that was loaded from a file (record with other bits set): save/load and clone() show the new values, the others keep theirs",
                          group="reload", shape=f"Synth({mt}) saved with mostly-set option bits, loaded, options {grp} assigned", symbolic="every representable value of each option of the group", timeout=300))
        # setter semantics on the object itself: read-back, inversion, exclusivity
        for o in sp["options"]:
            n = o["name"]
            if o["size"] == 1:
                body = f"""
    mod = {cls_expr(mt)}()
    mod.{n} = b
    if mod.{n} is not b:
        return False
    # stored (not logical) value in the record
    stored = mod.option_values[{n!r}]
    return stored == ({'not b' if o['inverted'] else 'b'})
"""
                obs.append(Ob(f"bool.{mt}.{n}", build([B("b")], body, setup=SETUP), f"{mt}.{n}: reads back the logical value assigned" + (" (declared inverted: stored complement)" if o["inverted"] else ""),
                              group="setter", shape=f"{mt}()", symbolic="b: bool", timeout=60))
            if o["min"] is not None and o["max"] is not None:
                body = f"""
    mod = {cls_expr(mt)}()
    mod.{n} = v
    got = mod.{n}
    if v < {o['min']}:
        return got == {o['min']}
    if v > {o['max']}:
        return got == {o['max']}
    return got == v
"""
                obs.append(Ob(f"clamp.{mt}.{n}", build([INT("v")], body, setup=SETUP), f"{mt}.{n}: any assigned integer is clamped into the declared [{o['min']}, {o['max']}]",
                              group="clamp", shape=f"{mt}()", symbolic="v over all integers (unbounded)", timeout=600))
        # exclusive pairs: after any two assignments never both on
        done = set()
        for o in sp["options"]:
            for other in o["exclusive_of"]:
                key = tuple(sorted((o["name"], other)))
                if key in done:
                    continue
                done.add(key)
                a, b_ = key
                body = f"""
    mod = {cls_expr(mt)}()
    # two assignments: the first reaches every state the pair can be in ((on, off), (off, on), (off, off): assigning either member
    # clears the other), the second is then an arbitrary assignment from an arbitrary reachable state -- the inductive step for
    # sequences of any length
    for which, val in ((w1, x1), (w2, x2)):
        if which:
            mod.{a} = val
        else:
            mod.{b_} = val
        if mod.{a} and mod.{b_}:
            return False
    last_a = mod.{a}
    last_b = mod.{b_}
    m2 = rt(Synth(mod)).module
    return m2.{a} == last_a and m2.{b_} == last_b and not (m2.{a} and m2.{b_})
"""
                obs.append(Ob(f"exclusive.{mt}.{a}", build([B("w1"), B("x1"), B("w2"), B("x2")], body, setup=SETUP),
                              f"{mt}: {a} and {b_} (declared mutually exclusive) are never both on after any assignment from any reachable state of the pair, also after save/load",
                              group="exclusive", shape=f"{mt}(), two assignments (the first reaches every state of the pair)", symbolic="which option and which value, twice", timeout=300))
    # structural: no two options of a type share a bit (concrete side-condition on the live classes AND the YAML)
    src = "from vf.prelude import *\n" + SETUP + f'''
SPEC = {[(mt, [(o["name"], o["byte"], o["bit"], o["size"]) for o in sp["options"]]) for mt, sp in S.items() if sp["options"]]!r}


def h():
    for mt, opts in SPEC:
        cls = MODULE_CLASSES[mt]
        used = {{}}
        for n, o in cls.options.items():
            for k in range(o.size):
                key = (o.byte, o.bit + k)
                if key in used or o.bit + o.size > 8:
                    print(mt, n, "overlaps", used.get(key))
                    return False
                used[key] = n
        if sorted((n, o.byte, o.bit, o.size) for n, o in cls.options.items()) != sorted(opts):
            print(mt, "option layout differs from the YAML")
            return False
    return True
'''
    obs.append(Ob("layout.disjoint", src, "declared option bit ranges are pairwise disjoint inside a byte and equal the YAML layout", engine="C", group="layout",
                  shape="all option-bearing classes (finite)"))
    return obs
