"""C03 — written files conform to the documented SunVox chunk format."""
import random

from vf import modgen, spec
from vf.harness import B, I32, R, U8, U16, U32, Ob, build
from vf.modgen import SETUP as MSETUP, attachable_types, cls_expr

EXPLANATION = (
    "C03: the bytes produced by the real writers are parsed COMPLETELY by REF-DEC (vf/refformat.py: built from docs/sunvox-file-format.rst and specs/fileformat.yaml, "
    "never importing rv) -- exact consumption, every chunk id known to the documentation at that position, documented order, PEND/SEND terminators, SNAM 32 bytes -- and the "
    "decoded record must equal the object's public state: each field in its documented chunk, width, signedness and offset convention (stored value = v - min when min < 0, "
    "from the YAML).  Because the oracle is independent of rv's reader, a symmetric writer/reader error becomes a counterexample.  Values are symbolic over their documented widths."
)
BOUNDS = {"quick": {"types": "all 42 attachable types in a synth file and, for 8 seeded types, inside a project", "values": "every range controller, common/MIDI fields, CMID channel/parameter; enum/bool seeded",
                    "projects": "header (all fields), pattern lists with symbolic cells, module slots with empties", "CHNK boundary": "MetaModule with 96 user-defined controllers and labels on the last two (highest chunk number 103)"},
          "thorough": {"types": "all 42 in both contexts"}}
OUTSIDE = ["module-specific payload layouts other than options (C11), sampler records (C16) and the content of MetaModule chunks (C15; the CHNK-count rule itself is checked here at its boundary)", "files with more than 4 modules / 3 patterns"]
ASSUMPTIONS = ["where the documentation (written for 1.9.4) is silent about newer chunks (BVER, FLGS, SFGS, TGD2, LGEN, SLnK, PFLG/PICO...), the YAML chunk list is the reference"]

SETUP = MSETUP + '''from vf import refformat as RF


def order_ok(ids):
    """module chunk ids appear in the documented order (CHNM/CHDT/CHFF/CHFR groups after CHNK)"""
    last = -1
    for cid in ids:
        c = cid.decode()
        if c in ("CHNM", "CHDT", "CHFF", "CHFR"):
            if "CHNK" not in [x.decode() for x in ids]:
                return False
            continue
        if c not in RF.MODULE_ORDER:
            return False
        i = RF.MODULE_ORDER.index(c)
        if i < last:
            return False
        last = i
    return True
'''


def module_checks(mt, sp, in_project):
    """(expected-expression list over decoded dict `d` and module `mod`)"""
    ex = ["d.get('type') == mod.mtype", "d['flags'] == mod.flags", "d['finetune'] == mod.mod_finetune", "d['relative_note'] == mod.mod_relative_note",
          "d['scale'] == mod.scale", "tuple(d['color']) == tuple(mod.color)", "d['midi_in_always'] == mod.midi_in_always", "d['midi_in_channel'] == mod.midi_in_channel",
          "d['midi_out_channel'] == mod.midi_out_channel", "d['midi_out_bank'] == mod.midi_out_bank", "d['midi_out_program'] == mod.midi_out_program", "order_ok(d['ids'])",
          "('midi_out_name' in d) == bool(mod.midi_out_name)"]
    if in_project:
        ex += ["d['x'] == mod.x", "d['y'] == mod.y", "d['layer'] == mod.layer", "d['visualization'] == mod.visualization.value", "d['links'] is not None"]
    else:
        ex += ["'x' not in d and 'y' not in d and 'layer' not in d and 'visualization' not in d"]
    att = [c for c in sp["controllers"] if c["attached"]]
    if mt == "MetaModule":
        ex.append(f"len(d['cvals']) == {len(att)} + mod.user_defined_controllers")
    else:
        ex.append(f"len(d['cvals']) == {len(att)}")
    ex.append("(d['cmid'] is None and len(d['cvals']) == 0) or len(d['cmid']) == 8 * len(d['cvals'])")
    for i, c in enumerate(att):
        n = c["name"]
        if c["kind"] in ("range", "compact"):
            ex.append(f"d['cvals'][{i}] == mod.{n}" + (f" - ({c['min']})" if c["min"] < 0 else ""))
        elif c["kind"] == "nooffset":
            ex.append(f"d['cvals'][{i}] == mod.{n} % 4294967296")
        elif c["kind"] == "enum":
            ex.append(f"d['cvals'][{i}] == mod.{n}.value")
        elif c["kind"] == "bool":
            ex.append(f"d['cvals'][{i}] == (1 if mod.{n} else 0)")
        elif c["kind"] == "dep":
            ex.append(f"d['cvals'][{i}] == mod.{n}")
    ex.append("(d['chnk'] is None) == (not mod.chnk)")
    ex.append("d['chnk'] is None or (d['chnk'] == mod.chnk and all(c_['chnm'] < d['chnk'] and c_['chdt'] is not None for c_ in d['chunks']))")
    return ex


def module_obs(tier, rnd, S):
    obs = []
    types = attachable_types()
    proj_types = set(rnd.sample(types, 8)) if tier == "quick" else set(types)
    for mt in types:
        sp = S[mt]
        for ctx in ("synth", "project"):
            if ctx == "project" and mt not in proj_types:
                continue
            ip = ctx == "project"
            only = ["volume", "input_module", "play_patterns", "bpm", "tpl"] if mt == "MetaModule" else None
            items = modgen.items_controllers(mt, rnd=rnd, only=only, enums_symbolic=False)
            if mt != "MetaModule":
                items += modgen.items_cmid(mt, rnd=rnd, max_ctls=4)
            items += modgen.items_common(mt, in_project=ip)
            items += modgen.items_midi(mt)
            chunks = modgen.pack(items, max_forks=8, max_params=30)
            if tier == "quick":
                chunks = chunks[:2] if len(chunks) <= 2 else [chunks[0], rnd.choice(chunks[1:])]
            checks = module_checks(mt, sp, ip)
            # CMID entries per docs: type, channel, slope, 0, parameter u16, 0, 0xFF if unset else 0xC8
            cm = """
    names = [n for n, c in mod.controllers.items() if c.attached(mod)]
    for i_, n_ in enumerate(names):
        mp = mod.controller_midi_maps[n_]
        e = d['cmid'][8 * i_: 8 * i_ + 8]
        if not (e[0] == mp.message_type.value and e[1] == mp.channel and e[2] == mp.slope.value and e[3] == 0 and e[4] + 256 * e[5] == mp.message_parameter and e[6] == 0):
            return False
"""
            for ci, ch in enumerate(chunks):
                g = modgen.render(items, ch, rnd)
                if ip:
                    mk = f"    p = Project()\n    mod = p.new_module({cls_expr(mt)})\n{g.code(4)}\n    mod >> p.output\n    data = save_bytes(p)\n    dp = RF.decode_project(data)\n    if len(dp['modules']) != 2 or dp['modules'][0].get('type') is not None:\n        return False\n    d = dp['modules'][1]"
                else:
                    mk = f"    mod = {cls_expr(mt)}()\n{g.code(4)}\n    data = save_bytes(Synth(mod))\n    ver, d = RF.decode_synth(data)\n    if tuple(ver) != (2, 1, 2, 1):\n        return False"
                body = f"""
{mk}
{cm if mt != "MetaModule" else ""}
    return ({(chr(10) + "        and ").join("(" + c + ")" for c in checks)})
"""
                obs.append(Ob(f"mod.{ctx}.{mt}.s{ci}", build(g.params, body, setup=SETUP, extra_pre=g.pre),
                              f"{mt} written {'inside a project' if ip else 'as a synth'}: REF-DEC parses the stream completely (documented ids, order, terminators) and finds every common field, one CVAL per attached controller with the YAML's offset convention, 8 binding bytes per CVAL, CHNK above every CHNM",
                              group="module", shape=f"{ctx}({mt}); " + "; ".join(g.notes[:6]), symbolic=", ".join(p_[0] for p_ in g.params), timeout=300))
    # the structural CHNK rule at its boundary: a MetaModule with all 96 user-defined controllers and a label on the LAST one writes
    # its highest module-specific chunk number (8 + 95 = 103); the declared count must still be above it
    for ctx in ("synth", "project"):
        if ctx == "synth":
            mk = "    data = save_bytes(Synth(mod))\n    ver, d = RF.decode_synth(data)"
        else:
            mk = "    p = Project()\n    p.attach_module(mod)\n    data = save_bytes(p)\n    d = RF.decode_project(data)['modules'][1]"
        body = f"""
    mod = {cls_expr('MetaModule')}()
    mod.user_defined_controllers = 96
    mod.user_defined[0].label = 'first'
    mod.user_defined[94].label = 'L' + chr(c1)
    mod.user_defined[95].label = 'last' + chr(c2)
{mk}
    nums = [c_['chnm'] for c_ in d['chunks']]
    if d['chnk'] is None or not all(n_ < d['chnk'] for n_ in nums) or any(c_['chdt'] is None for c_ in d['chunks']):
        return False
    lab = dict((c_['chnm'], bytes(c_['chdt'])) for c_ in d['chunks'] if c_['chnm'] >= 8)
    return sorted(lab) == [8, 102, 103] and lab[103].rstrip(b"\\0") == ('last' + chr(c2)).encode("utf8") and len(d['cvals']) == 5 + 96
"""
        CPX = "(1 <= {v} <= 0xD7FF or 0xE000 <= {v} <= 0x10FFFF)"
        obs.append(Ob(f"meta.labels96.{ctx}", build([("c1", "int", CPX.format(v="c1")), ("c2", "int", CPX.format(v="c2"))] if ctx == "synth" else [("c1", "int", "c1 == 65"), ("c2", "int", "c2 == 66")], body, setup=SETUP),
                      f"MetaModule with 96 user-defined controllers and labels on the first and the last two ({ctx}): every module-specific chunk number, including the last label's 103, is below the declared CHNK count; the label chunks carry the text",
                      group="module", shape=f"{ctx}(MetaModule), n=96, labels at 0, 94, 95", symbolic="one code point in each of the last two labels" if ctx == "synth" else "none besides shape (labels concrete: attribute assignment slugifies them)", timeout=600))
    return obs


def project_obs(tier, rnd):
    from vf.props.c01 import HDR_FIELDS
    obs = []
    names = {"flags": "flags", "initial_bpm": "initial_bpm", "initial_tpl": "initial_tpl", "time_grid": "time_grid", "time_grid2": "time_grid2", "global_volume": "global_volume",
             "modules_scale": "modules_scale", "modules_zoom": "modules_zoom", "modules_x_offset": "modules_x_offset", "modules_y_offset": "modules_y_offset",
             "modules_layer_mask": "modules_layer_mask", "modules_current_layer": "modules_current_layer", "selected_module": "selected_module",
             "selected_generator": "selected_generator", "current_pattern": "current_pattern", "current_track": "current_track", "current_line": "current_line"}
    for gname, fields in (("u", [(n, k) for n, k in HDR_FIELDS if k is U32]), ("s", [("modules_x_offset", I32), ("modules_y_offset", I32), ("selected_generator", I32)]),
                          ("t", [("timeline_position", I32), ("restart_position", I32)])):
        params = [k(n) for n, k in fields]
        extra, more = "", ""
        if gname == "u":
            params += [R("sm", 0, 7), R("so", 0, 7)] + [U8(f"bv{i}") for i in range(4)] + [U8(f"sv{i}") for i in range(4)]
            extra = "    p.receive_sync_midi = sm\n    p.receive_sync_other = so\n    p.based_on_version = (bv0, bv1, bv2, bv3)\n    p.sunvox_version = (sv0, sv1, sv2, sv3)\n"
            more = " and h['sync'] == sm + 8 * so and tuple(h['based_on_version']) == (bv0, bv1, bv2, bv3) and tuple(h['version']) == (sv0, sv1, sv2, sv3)"
        sets = "\n".join(f"    p.{n} = {n}" for n, _ in fields)
        chk = " and ".join((f"h[{n!r}] == {n}" if n not in ("timeline_position", "restart_position") else f"h.get({n!r}, 0) == {n}") for n, _ in fields)
        body = f"""
    p = Project()
{sets}
{extra}
    d = RF.decode_project(save_bytes(p))
    h = d['header']
    return {chk}{more} and h['name'] == "Project" and len(d['modules']) == 1 and d['patterns'] == []
"""
        obs.append(Ob(f"hdr.{gname}", build(params, body, setup=SETUP), "project header: every field sits in its documented chunk with the documented width and signedness; chunks in the documented order",
                      group="header", shape="Project()", symbolic=", ".join(n for n, _ in fields), timeout=240))
    # patterns + slots
    for lay, (L, T) in (("PCE", (2, 2)), ("EP", (1, 1)), ("PP", (3, 2))):
        params, lines, chk = [], [], []
        for i, k in enumerate(lay):
            if k == "E":
                lines.append("p.attach_pattern(None)")
                chk.append(f"pats[{i}] is None")
            elif k == "C":
                params += [U32(f"src{i}"), U32(f"cf{i}")]
                lines.append(f"p.attach_pattern(PatternClone(source=src{i}, x={rnd.randint(-99, 99)}, y=7, flags_PFFF=cf{i}))")
                chk.append(f"pats[{i}]['source'] == src{i} and pats[{i}]['flags_PFFF'] == cf{i} and pats[{i}]['y'] == 7 and 'data' not in pats[{i}]")
            else:
                cells = []
                for c in range(L * T):
                    params += [R(f"v{i}_{c}", 0, 129), U16(f"m{i}_{c}"), U16(f"c{i}_{c}"), U16(f"w{i}_{c}")]
                    cells.append(f"Note(note=NOTECMD({rnd.choice([0, 1, 50, 120, 128, 140])}), vel=v{i}_{c}, module=m{i}_{c}, ctl=c{i}_{c}, val=w{i}_{c})")
                params += [U32(f"ys{i}"), U32(f"pf{i}")]
                lines.append(f"pat{i} = Pattern(lines={L}, tracks={T}, x=3, y=-4, y_size=ys{i}, flags_PFFF=pf{i}, name='pn')")
                lines.append(f"_cells{i} = [{', '.join(cells)}]")
                lines.append(f"pat{i}.set_via_fn(lambda pat, l, t: _cells{i}[l * {T} + t])")
                lines.append(f"p.attach_pattern(pat{i})")
                cellchk = " and ".join(f"pats[{i}]['data'][{c * 8 + 1}] == v{i}_{c} and RF.rd_u16(pats[{i}]['data'], {c * 8 + 2}) == m{i}_{c} and RF.rd_u16(pats[{i}]['data'], {c * 8 + 4}) == c{i}_{c} and RF.rd_u16(pats[{i}]['data'], {c * 8 + 6}) == w{i}_{c}" for c in range(L * T))
                chk.append(f"len(pats[{i}]['data']) == {L * T * 8} and pats[{i}]['tracks'] == {T} and pats[{i}]['lines'] == {L} and pats[{i}]['y_size'] == ys{i} and pats[{i}]['flags_PFFF'] == pf{i} and pats[{i}]['x'] == 3 and pats[{i}]['y'] == -4 and pats[{i}]['name'] == 'pn' and len(pats[{i}]['icon']) == 32 and {cellchk}")
        code = "\n".join("    " + l for l in lines)
        body = f"""
    p = Project()
    p.new_module(MODULE_CLASSES["Amplifier"])
    p.attach_module(None)
{code}
    d = RF.decode_project(save_bytes(p))
    pats = d['patterns']
    if len(pats) != {len(lay)} or len(d['modules']) != 3 or d['modules'][1] is None or d['modules'][2] is not None:
        return False
    return {' and '.join('(' + c + ')' for c in chk)}
"""
        obs.append(Ob(f"pat.{lay}.{L}x{T}", build(params, body, setup=SETUP), "pattern slots: PDTA is lines x tracks x 8 bytes with each cell in the documented note layout, every slot ends in PEND, clones carry PPAR, empty slots are a lone PEND; module slots end in SEND with an empty slot as a lone SEND",
                      group="patterns", shape=f"patterns {list(lay)} ({L}x{T}); modules [Output, Amplifier, empty]", symbolic="every cell's vel/module/ctl/val, y_size, flags, clone source/flags", timeout=300))
    return obs


def sampler_record_obs(tier, rnd):
    """fixed-layout records of the Sampler (400-byte header, sample records) for names of every length class: shared with C16"""
    from vf.props import c16
    return [o for o in c16.record_obs(tier, rnd) if o.oid.startswith("record.names.") or o.oid == "notemap"]


def obligations(tier, seed):
    rnd = random.Random(seed)
    S = spec.load()
    return module_obs(tier, rnd, S) + project_obs(tier, rnd) + sampler_record_obs(tier, rnd)
