#!/venv/bin/python
# Replay of a solver counterexample against the real library: no CrossHair, no stubs, real io.BytesIO.
# property C09  obligation range.stale.Pitch Detector.threshold
# Pitch Detector, controllers ['threshold', 'gain', 'detector_finetune', 'lp_filter_freq', 'alg_1_2_buffer_overlap', 'alg_1_sensitivity']: whatever integer w the module already stores (leniently stored values may be out of range), a strict assignment of v is accepted iff min <= v <= max, otherwise ControllerValueError and the stored value remains
# exit 1 = the property fails for this input on the current /repo tree; exit 0 = it holds.
import os, sys
os.environ["VF_REPLAY"] = "1"
sys.path.insert(0, "/verif")
ARGS = (10001, 10001)
KWARGS = {}
HARNESS = 'from vf.prelude import *\nfrom rv.modules import MODULE_CLASSES\nfrom rv.errors import ControllerValueError, override_raise_controller_value_errors\nCLS = MODULE_CLASSES[\'Pitch Detector\']\n\n\ndef h(w: int, v: int) -> bool:\n    """\n    post: _\n    """\n    mod = CLS()\n    with override_raise_controller_value_errors(False):\n        mod.threshold = w\n    before = mod.threshold\n    try:\n        mod.threshold = v\n    except ControllerValueError:\n        if 0 <= v <= 10000 or mod.threshold != before:\n            return False\n    else:\n        if not (0 <= v <= 10000) or mod.threshold != v:\n            return False\n    with override_raise_controller_value_errors(False):\n        mod.gain = w\n    before = mod.gain\n    try:\n        mod.gain = v\n    except ControllerValueError:\n        if 0 <= v <= 256 or mod.gain != before:\n            return False\n    else:\n        if not (0 <= v <= 256) or mod.gain != v:\n            return False\n    with override_raise_controller_value_errors(False):\n        mod.detector_finetune = w\n    before = mod.detector_finetune\n    try:\n        mod.detector_finetune = v\n    except ControllerValueError:\n        if -256 <= v <= 256 or mod.detector_finetune != before:\n            return False\n    else:\n        if not (-256 <= v <= 256) or mod.detector_finetune != v:\n            return False\n    with override_raise_controller_value_errors(False):\n        mod.lp_filter_freq = w\n    before = mod.lp_filter_freq\n    try:\n        mod.lp_filter_freq = v\n    except ControllerValueError:\n        if 0 <= v <= 4000 or mod.lp_filter_freq != before:\n            return False\n    else:\n        if not (0 <= v <= 4000) or mod.lp_filter_freq != v:\n            return False\n    with override_raise_controller_value_errors(False):\n        mod.alg_1_2_buffer_overlap = w\n    before = mod.alg_1_2_buffer_overlap\n    try:\n        mod.alg_1_2_buffer_overlap = v\n    except ControllerValueError:\n        if 0 <= v <= 100 or mod.alg_1_2_buffer_overlap != before:\n            return False\n    else:\n        if not (0 <= v <= 100) or mod.alg_1_2_buffer_overlap != v:\n            return False\n    with override_raise_controller_value_errors(False):\n        mod.alg_1_sensitivity = w\n    before = mod.alg_1_sensitivity\n    try:\n        mod.alg_1_sensitivity = v\n    except ControllerValueError:\n        if 0 <= v <= 100 or mod.alg_1_sensitivity != before:\n            return False\n    else:\n        if not (0 <= v <= 100) or mod.alg_1_sensitivity != v:\n            return False\n    return True\n\n\ndef h__reach(w: int, v: int) -> bool:\n    """\n    post: _\n    """\n    h(w, v)\n    return False\n'
ns = {"__name__": "vf_replay"}
exec(compile(HARNESS, "<harness range.stale.Pitch Detector.threshold>", "exec"), ns)
try:
    ok = ns['h'](*ARGS, **KWARGS)
except Exception as e:
    import traceback; traceback.print_exc()
    print("replay: raised", type(e).__name__, e)
    sys.exit(1)
print("replay: h(*%r, **%r) returned %r" % (ARGS, KWARGS, ok))
sys.exit(0 if ok else 1)
