#!/venv/bin/python
# Replay of a solver counterexample against the real library: no CrossHair, no stubs, real io.BytesIO.
# property C09  obligation range.stale.Sound2Ctl.sample_rate
# Sound2Ctl, controllers ['sample_rate', 'gain', 'smooth', 'out_min', 'out_max', 'out_controller']: whatever integer w the module already stores (leniently stored values may be out of range), a strict assignment of v is accepted iff min <= v <= max, otherwise ControllerValueError and the stored value remains
# exit 1 = the property fails for this input on the current /repo tree; exit 0 = it holds.
import os, sys
os.environ["VF_REPLAY"] = "1"
sys.path.insert(0, "/verif")
ARGS = (257, 257)
KWARGS = {}
HARNESS = 'from vf.prelude import *\nfrom rv.modules import MODULE_CLASSES\nfrom rv.errors import ControllerValueError, override_raise_controller_value_errors\nCLS = MODULE_CLASSES[\'Sound2Ctl\']\n\n\ndef h(w: int, v: int) -> bool:\n    """\n    post: _\n    """\n    mod = CLS()\n    with override_raise_controller_value_errors(False):\n        mod.sample_rate = w\n    before = mod.sample_rate\n    try:\n        mod.sample_rate = v\n    except ControllerValueError:\n        if 1 <= v <= 32768 or mod.sample_rate != before:\n            return False\n    else:\n        if not (1 <= v <= 32768) or mod.sample_rate != v:\n            return False\n    with override_raise_controller_value_errors(False):\n        mod.gain = w\n    before = mod.gain\n    try:\n        mod.gain = v\n    except ControllerValueError:\n        if 0 <= v <= 1024 or mod.gain != before:\n            return False\n    else:\n        if not (0 <= v <= 1024) or mod.gain != v:\n            return False\n    with override_raise_controller_value_errors(False):\n        mod.smooth = w\n    before = mod.smooth\n    try:\n        mod.smooth = v\n    except ControllerValueError:\n        if 0 <= v <= 256 or mod.smooth != before:\n            return False\n    else:\n        if not (0 <= v <= 256) or mod.smooth != v:\n            return False\n    with override_raise_controller_value_errors(False):\n        mod.out_min = w\n    before = mod.out_min\n    try:\n        mod.out_min = v\n    except ControllerValueError:\n        if 0 <= v <= 32768 or mod.out_min != before:\n            return False\n    else:\n        if not (0 <= v <= 32768) or mod.out_min != v:\n            return False\n    with override_raise_controller_value_errors(False):\n        mod.out_max = w\n    before = mod.out_max\n    try:\n        mod.out_max = v\n    except ControllerValueError:\n        if 0 <= v <= 32768 or mod.out_max != before:\n            return False\n    else:\n        if not (0 <= v <= 32768) or mod.out_max != v:\n            return False\n    with override_raise_controller_value_errors(False):\n        mod.out_controller = w\n    before = mod.out_controller\n    try:\n        mod.out_controller = v\n    except ControllerValueError:\n        if 0 <= v <= 255 or mod.out_controller != before:\n            return False\n    else:\n        if not (0 <= v <= 255) or mod.out_controller != v:\n            return False\n    return True\n\n\ndef h__reach(w: int, v: int) -> bool:\n    """\n    post: _\n    """\n    h(w, v)\n    return False\n'
ns = {"__name__": "vf_replay"}
exec(compile(HARNESS, "<harness range.stale.Sound2Ctl.sample_rate>", "exec"), ns)
try:
    ok = ns['h'](*ARGS, **KWARGS)
except Exception as e:
    import traceback; traceback.print_exc()
    print("replay: raised", type(e).__name__, e)
    sys.exit(1)
print("replay: h(*%r, **%r) returned %r" % (ARGS, KWARGS, ok))
sys.exit(0 if ok else 1)
