#!/venv/bin/python
# Replay of a solver counterexample against the real library: no CrossHair, no stubs, real io.BytesIO.
# property C20  obligation L1.28
# post-curve stage for target Distortion.bit_depth [1, 16], quantization 32768, window 0..32768: kernel result + 1 stays in the declared range and is monotone (non-decreasing) for every u in 0..32768
# exit 1 = the property fails for this input on the current /repo tree; exit 0 = it holds.
import os, sys
os.environ["VF_REPLAY"] = "1"
sys.path.insert(0, "/verif")
ARGS = ()
KWARGS = {'model': {'v': 32768, 'fp.to_sbv': '[else -> fp.to_sbv(Var(0), Var(1))]'}}
HARNESS = 'from vf.prelude import *\nfrom rv.modules.multictl import convert_value\n\nP = [256, 32768, 0, 32768, 0, 15, 16]\nCURVE = None\n\n\ndef h(model=None):\n    a = convert_value(*P, model["v"], CURVE)\n    print("convert_value%r value=%d -> %d" % (tuple(P), model["v"], a))\n    if "v2" in model:\n        b = convert_value(*P, model["v2"], CURVE)\n        print("value=%d -> %d" % (model["v2"], b))\n        return not (model["v"] <= model["v2"] and (1 >= 0 and a > b or 1 < 0 and a < b))\n    return 0 <= a <= 15\n\n\ndef scan():\n    """whole input domain of the real function (used when the solver\'s model is a stage value)"""\n    prev = None\n    for c in range(0, 32769):\n        a = convert_value(*P, c, CURVE)\n        if not (0 <= a <= 15):\n            print("value=%d -> %d outside [0, 15]" % (c, a))\n            return False\n        if prev is not None and ((1 >= 0 and prev > a) or (1 < 0 and prev < a)):\n            print("value=%d -> %d but value=%d -> %d" % (c - 1, prev, c, a))\n            return False\n        prev = a\n    return True\n\n\ndef h(model=None):\n    return scan()\n'
ns = {"__name__": "vf_replay"}
exec(compile(HARNESS, "<harness L1.28>", "exec"), ns)
try:
    ok = ns['h'](*ARGS, **KWARGS)
except Exception as e:
    import traceback; traceback.print_exc()
    print("replay: raised", type(e).__name__, e)
    sys.exit(1)
print("replay: h(*%r, **%r) returned %r" % (ARGS, KWARGS, ok))
sys.exit(0 if ok else 1)
