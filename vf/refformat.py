"""REF-DEC / REF-ENC: an independent decoder/encoder of the SunVox chunk format written ONLY from
docs/sunvox-file-format.rst and specs/fileformat.yaml.  It never imports rv.  Values pass through
int.to_bytes / int.from_bytes and list slicing, so symbolic bytes and ints flow through untouched.

Chunk framing (docs, "File structure"): 4-byte ASCII id, little-endian uint32 length, payload.
"""


class FormatError(Exception):
    pass


def u32(v):
    return list(int.to_bytes(v, 4, "little"))


def s32(v):
    return list(int.to_bytes(v, 4, "little", signed=True))


def u16(v):
    return list(int.to_bytes(v, 2, "little"))


def rd_u32(b, o=0):
    return int.from_bytes(bytes(b[o:o + 4]), "little")


def rd_s32(b, o=0):
    return int.from_bytes(bytes(b[o:o + 4]), "little", signed=True)


def rd_u16(b, o=0):
    return int.from_bytes(bytes(b[o:o + 2]), "little")


def ck(cid, payload=()):
    payload = list(payload)
    assert len(cid) == 4
    return list(cid) + u32(len(payload)) + payload


def cat(chunks):
    out = []
    for c in chunks:
        out.extend(c)
    return out


def walk(data):
    """-> list of (id: bytes, payload: bytes-like); the stream must be consumed exactly"""
    data = list(data)
    out = []
    o = 0
    n = len(data)
    while o < n:
        if o + 8 > n:
            raise FormatError("truncated chunk header at %d" % o)
        cid = bytes(data[o:o + 4])
        ln = rd_u32(data, o + 4)
        if o + 8 + ln > n:
            raise FormatError("chunk %r at %d overruns the stream" % (cid, o))
        out.append((cid, data[o + 8:o + 8 + ln]))
        o += 8 + ln
    return out


def cstring(payload):
    """NUL-terminated UTF-8 (docs: cstring)"""
    b = list(payload)
    if 0 in b:
        b = b[:b.index(0)]
    return bytes(b).decode("utf8")


# ------------------------------------------------------------------------------------------
# module section (docs: "Module chunks"; order from specs/fileformat.yaml chunk_sections.module)

MODULE_ORDER = ["SFFF", "SNAM", "STYP", "SFIN", "SREL", "SXXX", "SYYY", "SZZZ", "SSCL", "SVPR", "SCOL", "SMII", "SMIN", "SMIC", "SMIB", "SMIP",
                "SLNK", "SLnK", "CVAL", "CMID", "CHNK"]


def split_modules(chunks, start):
    """chunks[start:] -> list of module slot chunk lists (each without its SEND), stops at end"""
    slots, cur = [], []
    for cid, pl in chunks[start:]:
        if cid == b"SEND":
            slots.append(cur)
            cur = []
        else:
            cur.append((cid, pl))
    if cur:
        raise FormatError("module slot without SEND terminator")
    return slots


def decode_module(slot):
    """one module slot (list of (id, payload)) -> dict of documented fields"""
    m = {"cvals": [], "chunks": [], "links": None, "link_slots": None, "cmid": None, "chnk": None, "ids": [c for c, _ in slot]}
    cur = None
    for cid, pl in slot:
        if cid == b"SFFF":
            m["flags"] = rd_u32(pl)
        elif cid == b"SNAM":
            if len(pl) != 32:
                raise FormatError("SNAM must be 32 bytes, got %d" % len(pl))
            m["name"] = cstring(pl)
        elif cid == b"STYP":
            m["type"] = cstring(pl)
        elif cid == b"SFIN":
            m["finetune"] = rd_s32(pl)
        elif cid == b"SREL":
            m["relative_note"] = rd_s32(pl)
        elif cid == b"SXXX":
            m["x"] = rd_s32(pl)
        elif cid == b"SYYY":
            m["y"] = rd_s32(pl)
        elif cid == b"SZZZ":
            m["layer"] = rd_s32(pl)
        elif cid == b"SSCL":
            m["scale"] = rd_u32(pl)
        elif cid == b"SVPR":
            m["visualization"] = rd_u32(pl)
        elif cid == b"SCOL":
            if len(pl) != 3:
                raise FormatError("SCOL must be 3 bytes")
            m["color"] = (pl[0], pl[1], pl[2])
        elif cid == b"SMII":
            w = rd_u32(pl)
            m["midi_in_always"] = (w % 2) == 1
            m["midi_in_channel"] = w // 2
        elif cid == b"SMIN":
            m["midi_out_name"] = cstring(pl)
        elif cid == b"SMIC":
            m["midi_out_channel"] = rd_u32(pl)
        elif cid == b"SMIB":
            m["midi_out_bank"] = rd_s32(pl)
        elif cid == b"SMIP":
            m["midi_out_program"] = rd_s32(pl)
        elif cid == b"SLNK":
            if len(pl) % 4:
                raise FormatError("SLNK length not a multiple of 4")
            m["links"] = [rd_s32(pl, i) for i in range(0, len(pl), 4)]
        elif cid == b"SLnK":
            m["link_slots"] = [rd_s32(pl, i) for i in range(0, len(pl), 4)]
        elif cid == b"CVAL":
            if len(pl) != 4:
                raise FormatError("CVAL must be 4 bytes")
            m["cvals"].append(rd_u32(pl))
        elif cid == b"CMID":
            m["cmid"] = list(pl)
        elif cid == b"CHNK":
            m["chnk"] = rd_u32(pl)
        elif cid == b"CHNM":
            cur = {"chnm": rd_u32(pl), "chdt": None, "chff": None, "chfr": None}
            m["chunks"].append(cur)
        elif cid == b"CHDT":
            if cur is None:
                raise FormatError("CHDT before CHNM")
            cur["chdt"] = list(pl)
        elif cid == b"CHFF":
            cur["chff"] = rd_u32(pl)
        elif cid == b"CHFR":
            cur["chfr"] = rd_u32(pl)
        else:
            raise FormatError("undocumented chunk %r in a module section" % cid)
    return m


def decode_synth(data):
    """.sunsynth stream -> (version tuple, module dict)"""
    ch = walk(data)
    if not ch or ch[0][0] != b"SSYN" or len(ch[0][1]) != 0:
        raise FormatError("missing SSYN header")
    if ch[1][0] != b"VERS":
        raise FormatError("VERS expected after SSYN")
    slots = split_modules(ch, 2)
    if len(slots) != 1:
        raise FormatError("a synth holds exactly one module")
    return tuple(reversed(list(ch[1][1]))), decode_module(slots[0])


def option_field(chdt, byte, bit, size):
    """documented option layout: `size` bits starting at `bit` of byte `byte` of the options CHDT"""
    if byte >= len(chdt):
        raise FormatError("options record too short for byte %d" % byte)
    return (chdt[byte] // (2**bit)) % (2**size)
