#!/venv/bin/python
# Replay of a solver counterexample against the real library: no CrossHair, no stubs, real io.BytesIO.
# property C11  obligation reload.MultiSynth.g3
# MultiSynth: options ['dummy7'] changed on a module that was loaded from a file (record with other bits set): save/load and clone() show the new values, the others keep theirs
# exit 1 = the property fails for this input on the current /repo tree; exit 0 = it holds.
import os, sys
os.environ["VF_REPLAY"] = "1"
sys.path.insert(0, "/verif")
ARGS = (False,)
KWARGS = {}
HARNESS = 'from vf.prelude import *\nfrom rv.modules import MODULE_CLASSES\nfrom vf import refformat as RF\n\n\ndef h(o_dummy7: bool) -> bool:\n    """\n    post: _\n    """\n    src = MODULE_CLASSES[\'MultiSynth\']()\n    src.use_static_note_C5 = True\n    src.ignore_notes_with_zero_velocity = True\n    src.active_curve = 3\n    src.trigger = True\n    src.generate_missed_note_off_commands = True\n    src.round_note_x = True\n    src.round_pitch_y = True\n    src.record_notes_to_scale_curve = True\n    src.out_note_out_note_minus_in_note_plus_C5 = True\n    src.out_port_mode = 3\n    src.out_port_mode_random = True\n    src.dummy6 = True\n    src.dummy7 = True\n    mod = rt(Synth(src)).module\n    mod.dummy7 = o_dummy7\n    e_use_static_note_C5 = mod.use_static_note_C5\n    e_ignore_notes_with_zero_velocity = mod.ignore_notes_with_zero_velocity\n    e_active_curve = mod.active_curve\n    e_trigger = mod.trigger\n    e_generate_missed_note_off_commands = mod.generate_missed_note_off_commands\n    e_round_note_x = mod.round_note_x\n    e_round_pitch_y = mod.round_pitch_y\n    e_record_notes_to_scale_curve = mod.record_notes_to_scale_curve\n    e_out_note_out_note_minus_in_note_plus_C5 = mod.out_note_out_note_minus_in_note_plus_C5\n    e_out_port_mode = mod.out_port_mode\n    e_out_port_mode_random = mod.out_port_mode_random\n    e_dummy6 = mod.dummy6\n    e_dummy7 = mod.dummy7\n    m2 = rt(Synth(mod)).module\n    m3 = mod.clone()\n    return m2.use_static_note_C5 == e_use_static_note_C5 and m2.ignore_notes_with_zero_velocity == e_ignore_notes_with_zero_velocity and m2.active_curve == e_active_curve and m2.trigger == e_trigger and m2.generate_missed_note_off_commands == e_generate_missed_note_off_commands and m2.round_note_x == e_round_note_x and m2.round_pitch_y == e_round_pitch_y and m2.record_notes_to_scale_curve == e_record_notes_to_scale_curve and m2.out_note_out_note_minus_in_note_plus_C5 == e_out_note_out_note_minus_in_note_plus_C5 and m2.out_port_mode == e_out_port_mode and m2.out_port_mode_random == e_out_port_mode_random and m2.dummy6 == e_dummy6 and m2.dummy7 == e_dummy7 and m3.use_static_note_C5 == e_use_static_note_C5 and m3.ignore_notes_with_zero_velocity == e_ignore_notes_with_zero_velocity and m3.active_curve == e_active_curve and m3.trigger == e_trigger and m3.generate_missed_note_off_commands == e_generate_missed_note_off_commands and m3.round_note_x == e_round_note_x and m3.round_pitch_y == e_round_pitch_y and m3.record_notes_to_scale_curve == e_record_notes_to_scale_curve and m3.out_note_out_note_minus_in_note_plus_C5 == e_out_note_out_note_minus_in_note_plus_C5 and m3.out_port_mode == e_out_port_mode and m3.out_port_mode_random == e_out_port_mode_random and m3.dummy6 == e_dummy6 and m3.dummy7 == e_dummy7\n\n\ndef h__reach(o_dummy7: bool) -> bool:\n    """\n    post: _\n    """\n    h(o_dummy7)\n    return False\n'
ns = {"__name__": "vf_replay"}
exec(compile(HARNESS, "<harness reload.MultiSynth.g3>", "exec"), ns)
try:
    ok = ns['h'](*ARGS, **KWARGS)
except Exception as e:
    import traceback; traceback.print_exc()
    print("replay: raised", type(e).__name__, e)
    sys.exit(1)
print("replay: h(*%r, **%r) returned %r" % (ARGS, KWARGS, ok))
sys.exit(0 if ok else 1)
