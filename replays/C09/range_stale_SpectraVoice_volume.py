#!/venv/bin/python
# Replay of a solver counterexample against the real library: no CrossHair, no stubs, real io.BytesIO.
# property C09  obligation range.stale.SpectraVoice.volume
# SpectraVoice, controllers ['volume', 'panning', 'attack', 'release', 'polyphony', 'spectrum_resolution']: whatever integer w the module already stores (leniently stored values may be out of range), a strict assignment of v is accepted iff min <= v <= max, otherwise ControllerValueError and the stored value remains
# exit 1 = the property fails for this input on the current /repo tree; exit 0 = it holds.
import os, sys
os.environ["VF_REPLAY"] = "1"
sys.path.insert(0, "/verif")
ARGS = (8, 8)
KWARGS = {}
HARNESS = 'from vf.prelude import *\nfrom rv.modules import MODULE_CLASSES\nfrom rv.errors import ControllerValueError, override_raise_controller_value_errors\nCLS = MODULE_CLASSES[\'SpectraVoice\']\n\n\ndef h(w: int, v: int) -> bool:\n    """\n    post: _\n    """\n    mod = CLS()\n    with override_raise_controller_value_errors(False):\n        mod.volume = w\n    before = mod.volume\n    try:\n        mod.volume = v\n    except ControllerValueError:\n        if 0 <= v <= 256 or mod.volume != before:\n            return False\n    else:\n        if not (0 <= v <= 256) or mod.volume != v:\n            return False\n    with override_raise_controller_value_errors(False):\n        mod.panning = w\n    before = mod.panning\n    try:\n        mod.panning = v\n    except ControllerValueError:\n        if -128 <= v <= 128 or mod.panning != before:\n            return False\n    else:\n        if not (-128 <= v <= 128) or mod.panning != v:\n            return False\n    with override_raise_controller_value_errors(False):\n        mod.attack = w\n    before = mod.attack\n    try:\n        mod.attack = v\n    except ControllerValueError:\n        if 0 <= v <= 512 or mod.attack != before:\n            return False\n    else:\n        if not (0 <= v <= 512) or mod.attack != v:\n            return False\n    with override_raise_controller_value_errors(False):\n        mod.release = w\n    before = mod.release\n    try:\n        mod.release = v\n    except ControllerValueError:\n        if 0 <= v <= 512 or mod.release != before:\n            return False\n    else:\n        if not (0 <= v <= 512) or mod.release != v:\n            return False\n    with override_raise_controller_value_errors(False):\n        mod.polyphony = w\n    before = mod.polyphony\n    try:\n        mod.polyphony = v\n    except ControllerValueError:\n        if 1 <= v <= 32 or mod.polyphony != before:\n            return False\n    else:\n        if not (1 <= v <= 32) or mod.polyphony != v:\n            return False\n    with override_raise_controller_value_errors(False):\n        mod.spectrum_resolution = w\n    before = mod.spectrum_resolution\n    try:\n        mod.spectrum_resolution = v\n    except ControllerValueError:\n        if 0 <= v <= 5 or mod.spectrum_resolution != before:\n            return False\n    else:\n        if not (0 <= v <= 5) or mod.spectrum_resolution != v:\n            return False\n    return True\n\n\ndef h__reach(w: int, v: int) -> bool:\n    """\n    post: _\n    """\n    h(w, v)\n    return False\n'
ns = {"__name__": "vf_replay"}
exec(compile(HARNESS, "<harness range.stale.SpectraVoice.volume>", "exec"), ns)
try:
    ok = ns['h'](*ARGS, **KWARGS)
except Exception as e:
    import traceback; traceback.print_exc()
    print("replay: raised", type(e).__name__, e)
    sys.exit(1)
print("replay: h(*%r, **%r) returned %r" % (ARGS, KWARGS, ok))
sys.exit(0 if ok else 1)
