import rv.api
import chplug, logging; logging.disable(logging.CRITICAL)
from rv.api import Project, read_sunvox_file, m, Synth, Pattern, Note
from symio import PyFile
import rv.errors
import rv.modules.sampler, rv.container, rv.modules.metamodule
rv.modules.sampler.BytesIO = PyFile
rv.container.BytesIO = PyFile
rv.modules.metamodule.BytesIO = PyFile

def opts_rt(fit: int, a: bool, b: bool, c: bool) -> bool:
    """
    pre: 0 <= fit <= 255
    post: _
    """
    s = m.Sampler()
    s.fit_to_pattern = fit
    s.record_in_mono = a
    s.record_in_16_bit = b
    s.ignore_velocity_for_volume = c
    f = PyFile()
    Synth(s).write_to(f)
    f.seek(0)
    t = read_sunvox_file(f).module
    return t.fit_to_pattern == fit and t.record_in_mono == a and t.record_in_16_bit == b and t.ignore_velocity_for_volume == c and t.start_recording_on_project_play is False

class FaultFile(PyFile):
    def __init__(self, data, k):
        super().__init__(data); self.k = k; self.n = 0
    def read(self, n=-1):
        self.n += 1
        if self.n == self.k:
            raise OSError("injected")
        return super().read(n)

DATA = open("/repo/tests/files/amplifier.sunsynth", "rb").read()

def fault(k: int, init: bool) -> bool:
    """
    pre: 1 <= k <= 200
    post: _
    """
    rv.errors.RAISE_CONTROLLER_VALUE_ERRORS = init
    try:
        read_sunvox_file(FaultFile(DATA, k))
    except OSError:
        pass
    ok = rv.errors.RAISE_CONTROLLER_VALUE_ERRORS == init
    rv.errors.RAISE_CONTROLLER_VALUE_ERRORS = True
    return ok

def bulk(fl: int, ft: int) -> bool:
    """
    pre: 0 <= fl <= 2 and 0 <= ft <= 2
    post: _
    """
    p = Pattern(lines=2, tracks=2)
    before = p.raw_data
    def fn(pat, line, track):
        if line == fl and track == ft:
            raise KeyError("boom")
        return Note(vel=5)
    try:
        p.set_via_fn(fn)
    except KeyError:
        return p.raw_data == before
    return all(n.vel == 5 and n.pattern is p for l in p.data for n in l)
