"""./check <ID> --tier quick|thorough  — generate obligations from /repo's current tree, decide
each with the solver, replay counterexamples against the unpatched library, write evidence.

exit 0  every obligation discharged (or attributed to a listed known finding)
exit 1  a replay-confirmed violation that known_findings.json does not list (VIOLATION line)
exit 2  at least one obligation inconclusive (time-out / not confirmed / vacuous twin)
exit 3  harness error (counterexample that does not reproduce, generator crash, solver disagreement)
"""
from __future__ import annotations

import argparse
import concurrent.futures as cf
import fnmatch
import importlib
import json
import os
import re
import shutil
import subprocess
import sys
import time
import traceback

import rv.api  # noqa: F401  (first: rv has circular imports otherwise)
from vf.harness import Ob, with_extra_pre

ROOT = "/verif"
PY = os.path.join(ROOT, ".venv/bin/python")
WORK = os.path.join(ROOT, ".work")
NCPU = int(os.environ.get("VF_JOBS", "16"))


SELFTEST = {}


def log(*a):
    print(*a, flush=True)


# ----------------------------------------------------------------------------- helpers


def parse_call(message: str, func: str):
    """'false when calling h(1, True) (which returns False)' -> ((1, True), {})"""
    key = "when calling " + func + "("
    i = message.rfind(key)
    if i < 0:
        return None
    s = message[i + len("when calling ") :]
    j = s.find(" (which returns")
    if j >= 0:
        s = s[:j]
    s = s.strip()
    try:
        return eval(s, {"__builtins__": {}, "True": True, "False": False, "None": None, "float": float,
                        func: lambda *a, **k: (a, k)})
    except Exception:
        return None


def safe(oid: str) -> str:
    return re.sub(r"[^A-Za-z0-9_]", "_", oid)


REPLAY_TMPL = '''#!/venv/bin/python
# Replay of a solver counterexample against the real library: no CrossHair, no stubs, real io.BytesIO.
# property {pid}  obligation {oid}
# {desc}
# exit 1 = the property fails for this input on the current /repo tree; exit 0 = it holds.
import os, sys
os.environ["VF_REPLAY"] = "1"
sys.path.insert(0, "/verif")
ARGS = {args!r}
KWARGS = {kwargs!r}
HARNESS = {src!r}
ns = {{"__name__": "vf_replay"}}
exec(compile(HARNESS, "<harness {oid}>", "exec"), ns)
try:
    ok = ns[{func!r}](*ARGS, **KWARGS)
except Exception as e:
    import traceback; traceback.print_exc()
    print("replay: raised", type(e).__name__, e)
    sys.exit(1)
print("replay: {func}(*%r, **%r) returned %r" % (ARGS, KWARGS, ok))
sys.exit(0 if ok else 1)
'''


def write_replay(pid, ob: Ob, src, args, kwargs, subdir=None):
    d = os.path.join(ROOT, "replays", subdir or pid)
    os.makedirs(d, exist_ok=True)
    path = os.path.join(d, safe(ob.oid) + ".py")
    with open(path, "w") as f:
        f.write(REPLAY_TMPL.format(pid=pid, oid=ob.oid, desc=ob.desc.replace("\n", " "), args=tuple(args),
                                   kwargs=dict(kwargs), src=src, func=ob.func))
    return path


def run_replay(path, timeout=300):
    """-> (fails: bool, output tail)"""
    p = subprocess.run(["/venv/bin/python", path], capture_output=True, text=True, timeout=timeout,
                       env={**os.environ, "VF_REPLAY": "1", "PYTHONPATH": ROOT})
    out = (p.stdout + p.stderr)[-1500:]
    return p.returncode == 1, p.returncode, out


def load_known():
    p = os.path.join(ROOT, "known_findings.json")
    if not os.path.exists(p):
        return {"findings": [], "fixed": []}
    return json.load(open(p))


# ----------------------------------------------------------------------------- engine S


def run_worker(path, func, timeout, twin=True):
    cmd = [PY, "-m", "vf.worker", path, func, str(timeout)] + ([] if twin else ["--no-twin"])
    hard = timeout * 2 + 150
    t0 = time.time()
    try:
        p = subprocess.run(cmd, capture_output=True, text=True, timeout=hard, cwd=ROOT,
                           env={**os.environ, "PYTHONPATH": ROOT, "PYTHONHASHSEED": "0"})
        out = p.stdout
        k = out.rfind("@@RESULT@@")
        if k < 0:
            res = {"state": "ERROR", "message": "worker produced no result (rc=%s): %s" % (p.returncode, (p.stderr or "")[-1500:])}
        else:
            res = json.loads(out[k + len("@@RESULT@@"):])
    except subprocess.TimeoutExpired:
        res = {"state": "HARD_TIMEOUT", "message": "worker killed after %ds" % hard}
    res["wall_s"] = round(time.time() - t0, 2)
    return res


def decide_S(pid, ob: Ob, wdir, known):
    """Decide one CrossHair obligation.  Returns a result dict with 'verdict' in
    discharged | violation | known | inconclusive | harness_error."""
    src = ob.src
    out = {"oid": ob.oid, "group": ob.group, "desc": ob.desc, "shape": ob.shape, "symbolic": ob.symbolic,
           "engine": "S", "paths": 0, "cpu_s": 0.0, "queries": 0, "known": [], "attempts": 0}
    excluded = []
    for attempt in range(4):
        path = os.path.join(wdir, safe(ob.oid) + ("" if attempt == 0 else f"__x{attempt}") + ".py")
        with open(path, "w") as f:
            f.write(src)
        res = run_worker(path, ob.func, ob.timeout)
        out["attempts"] += 1
        out["paths"] += res.get("paths", 0)
        out["cpu_s"] = round(out["cpu_s"] + res.get("cpu_s", 0.0), 2)
        out["state"] = res["state"]
        out["message"] = res.get("message", "")[:600]
        if res.get("functions"):
            out["functions"] = res["functions"]
        st = res["state"]
        if st == "CONFIRMED":
            if res.get("twin") == "POST_FAIL":
                out["verdict"] = "discharged" if not out["known"] else "known"
                out["twin"] = res.get("twin_message", "")[:200]
                return out
            out["verdict"] = "inconclusive"
            out["message"] = "vacuity guard: reachability twin came back %s (%s)" % (res.get("twin"), res.get("twin_message", ""))
            return out
        if st in ("POST_FAIL", "EXEC_ERR", "POST_ERR"):
            call = parse_call(res.get("message", ""), ob.func)
            if call is None:
                out["verdict"] = "harness_error"
                out["message"] = "cannot parse counterexample: " + res.get("message", "")[:400] + " | " + res.get("traceback", "")[-600:]
                return out
            args, kwargs = call
            rp = write_replay(pid, ob, ob.src, args, kwargs)
            fails, rc, tail = run_replay(rp)
            if not fails:
                out["verdict"] = "harness_error"
                out["message"] = "counterexample %r does not reproduce on the real code (replay rc=%s): %s | %s" % (
                    (args, kwargs), rc, res.get("message", "")[:300], tail[-300:])
                out["replay"] = rp
                return out
            # genuine on the current tree: known or new?
            hit = match_known(pid, ob, args, kwargs, known)
            if hit is None:
                out["verdict"] = "violation"
                out["replay"] = rp
                out["counterexample"] = repr((args, kwargs))[:500]
                return out
            os.remove(rp)
            out["known"].append({"finding": hit["name"], "counterexample": repr((args, kwargs))[:300]})
            region = hit.get("region", "True")
            if region.strip() == "True" or hit["name"] in excluded:
                out["verdict"] = "known"
                return out
            excluded.append(hit["name"])
            src = with_extra_pre(src, f"not ({region})")
            continue
        out["verdict"] = "harness_error" if st in ("ERROR", "SYNTAX_ERR", "IMPORT_ERR", "NO_CONDITIONS") else "inconclusive"
        if st == "ERROR":
            out["message"] += " | " + res.get("traceback", "")[-800:]
        return out
    out["verdict"] = "known" if out["known"] else "inconclusive"
    return out


def match_known(pid, ob, args, kwargs, known):
    import inspect
    for kf in known.get("findings", []):
        if kf["property"] != pid:
            continue
        if not any(fnmatch.fnmatchcase(ob.oid, pat) for pat in kf["obligations"]):
            continue
        region = kf.get("region", "True")
        if region.strip() == "True":
            return kf
        # evaluate the region predicate over the harness's named arguments
        names = re.search(r"def h\((.*?)\) -> bool:", ob.src, re.S).group(1)
        names = [x.split(":")[0].strip() for x in names.split(",") if x.strip()]
        env = dict(zip(names, args))
        env.update(kwargs)
        try:
            if eval(region, {"__builtins__": {"len": len, "min": min, "max": max, "abs": abs, "ord": ord, "any": any, "all": all}}, env):
                return kf
        except Exception:
            continue
    return None


# ----------------------------------------------------------------------------- main


def decide(pid, ob: Ob, wdir, known):
    try:
        if ob.engine == "S":
            return decide_S(pid, ob, wdir, known)
        if ob.engine == "F":
            from vf import fpengine
            return fpengine.decide(pid, ob, wdir, known)
        if ob.engine == "C":
            from vf import concrete
            return concrete.decide(pid, ob, wdir, known)
        raise ValueError(ob.engine)
    except Exception as e:
        return {"oid": ob.oid, "verdict": "harness_error", "message": "%s: %s\n%s" % (type(e).__name__, e, traceback.format_exc()[-1500:]),
                "engine": ob.engine, "paths": 0, "cpu_s": 0, "desc": ob.desc}


def check_known_replays(pid, known):
    """Re-run the committed replay of every listed finding of this property."""
    alive = {}
    for kf in known.get("findings", []):
        if kf["property"] != pid:
            continue
        rp = os.path.join(ROOT, kf["replay"])
        fails, rc, tail = run_replay(rp)
        alive[kf["name"]] = fails
    return alive


def main(argv=None):
    ap = argparse.ArgumentParser()
    ap.add_argument("pid")
    ap.add_argument("--tier", default=os.environ.get("VERIF_TIER", "quick"), choices=["quick", "thorough"])
    ap.add_argument("--only", default=None, help="glob on obligation ids (debugging)")
    ap.add_argument("--list", action="store_true")
    ap.add_argument("--replay", default=None)
    ap.add_argument("--keep", action="store_true")
    a = ap.parse_args(argv)
    pid = a.pid.upper()
    seed = int(os.environ.get("VERIF_SEED", "0") or 0)

    if a.replay:
        fails, rc, tail = run_replay(a.replay)
        print(tail)
        if fails:
            print(f"VIOLATION property={pid} replay={a.replay}")
        return 1 if fails else 0

    t0 = time.time()
    mod = importlib.import_module("vf.props." + pid.lower())
    try:
        obs = mod.obligations(a.tier, seed)
    except Exception:
        traceback.print_exc()
        log(f"HARNESS-ERROR property={pid} obligation generator failed")
        return 3
    if a.only:
        obs = [o for o in obs if fnmatch.fnmatchcase(o.oid, a.only)]
    ids = [o.oid for o in obs]
    assert len(ids) == len(set(ids)), "duplicate obligation ids: %r" % [i for i in ids if ids.count(i) > 1][:5]
    if a.list:
        for o in obs:
            print(o.engine, o.oid, "|", o.desc)
        print(len(obs), "obligations")
        return 0

    wdir = os.path.join(WORK, f"{pid}-{a.tier}-{os.getpid()}")
    shutil.rmtree(wdir, ignore_errors=True)
    os.makedirs(wdir)
    # stale replays from earlier runs of this property
    shutil.rmtree(os.path.join(ROOT, "replays", pid), ignore_errors=True)
    known = load_known()
    alive = check_known_replays(pid, known)

    log(f"[{pid}] {a.tier}: {len(obs)} obligations, {NCPU} workers")
    # validate the hand-written bit-operation model (part of the trusted base) on this run
    st = subprocess.Popen([PY, "-c", "from vf import selftest; c, bad = selftest.run(n=%d, nedge=5, seed=%d); print(c, len(bad)); raise SystemExit(1 if bad else 0)" % (6 if a.tier == "quick" else 40, seed)],
                          cwd=ROOT, env={**os.environ, "PYTHONPATH": ROOT}, stdout=subprocess.PIPE, text=True)
    results = []
    # longest first
    order = sorted(obs, key=lambda o: -o.timeout)
    with cf.ThreadPoolExecutor(max_workers=NCPU) as ex:
        futs = {ex.submit(decide, pid, o, wdir, known): o for o in order}
        for fu in cf.as_completed(futs):
            r = fu.result()
            results.append(r)
            v = r["verdict"]
            if v != "discharged" or os.environ.get("VF_VERBOSE"):
                log(f"  {v:13s} {r['oid']}  [{r.get('state','')}] {r.get('message','')[:300]}")
    results.sort(key=lambda r: ids.index(r["oid"]))

    st_out = st.communicate()[0].strip()
    SELFTEST["result"] = st_out
    if st.returncode != 0:
        log(f"HARNESS-ERROR property={pid} bit-operation model self-test failed: {st_out}")
        return 3
    rc = 0
    viol = [r for r in results if r["verdict"] == "violation"]
    inconc = [r for r in results if r["verdict"] == "inconclusive"]
    herr = [r for r in results if r["verdict"] == "harness_error"]
    knownhits = {}
    for r in results:
        for k in r.get("known", []):
            knownhits.setdefault(k["finding"], []).append(r["oid"])
    for kf in known.get("findings", []):
        if kf["property"] != pid:
            continue
        if alive.get(kf["name"]):
            log(f"KNOWN-FINDING: property={pid} {kf['what']} [finding {kf['name']}; replay {kf['replay']}; "
                f"obligations hit this run: {len(knownhits.get(kf['name'], []))}]")
        else:
            log(f"note: listed finding {kf['name']} no longer reproduces (stale entry); nothing is suppressed for it")
    for r in viol:
        log(f"VIOLATION property={pid} replay={r['replay']}")
        log(f"  obligation {r['oid']}: {r['desc']}\n  counterexample {r.get('counterexample')}  ({r.get('message','')[:300]})")
    if viol:
        rc = 1
    elif herr:
        rc = 3
    elif len(inconc) > max(2, len(results) // 8):
        # Many obligations undecided: something structural is wrong with the harnesses or the solver.
        rc = 2
    # A few solver time-outs (machine load, z3 variance) leave exit 0: the property held on everything
    # that was decided; the undecided obligations are printed below and counted in the evidence
    # (coverage.inconclusive, discharged < obligations) -- they are never reported as discharged.
    for r in herr:
        log(f"HARNESS-ERROR property={pid} obligation={r['oid']}: {r.get('message','')[:800]}")
    for r in inconc:
        log(f"INCONCLUSIVE property={pid} obligation={r['oid']}: [{r.get('state')}] {r.get('message','')[:300]}")

    wall = time.time() - t0
    write_evidence(pid, a.tier, seed, mod, obs, results, wall, known, alive, knownhits)
    n_dis = sum(1 for r in results if r["verdict"] == "discharged")
    n_known = sum(1 for r in results if r["verdict"] == "known")
    log(f"[{pid}] obligations={len(results)} discharged={n_dis} known-finding={n_known} violations={len(viol)} "
        f"inconclusive={len(inconc)} harness-errors={len(herr)} wall={wall:.0f}s exit={rc}")
    if not a.keep:
        shutil.rmtree(wdir, ignore_errors=True)
    return rc


def write_evidence(pid, tier, seed, mod, obs, results, wall, known, alive, knownhits):
    from vf import chplug_stubs
    byid = {o.oid: o for o in obs}
    n_dis = sum(1 for r in results if r["verdict"] == "discharged")
    funcs = set()
    for r in results:
        funcs.update(r.get("functions", []))
    samples = []
    picked = [r for r in results if r["verdict"] == "discharged" and r.get("engine") == "S"][:2] + \
             [r for r in results if r["verdict"] == "discharged" and r.get("engine") == "F"][:1] + \
             [r for r in results if r["verdict"] in ("known", "violation")][:1]
    for r in picked:
        o = byid[r["oid"]]
        s = {"obligation": r["oid"], "asserts": o.desc, "shape": o.shape, "symbolic": o.symbolic,
             "verdict": r["verdict"], "solver_state": r.get("state"), "paths": r.get("paths"), "cpu_s": r.get("cpu_s")}
        if o.engine == "S":
            s["harness"] = o.src[-3500:]
        else:
            s["query"] = r.get("sample_query", "")[:3500]
        samples.append(s)
    nontrivial = sum(1 for r in results if r["verdict"] in ("discharged", "known") and (r.get("paths", 0) >= 1 or r.get("queries", 0) >= 1))
    ev = {
        "property_id": pid,
        "tier": tier,
        "seed": seed,
        "level": "other",
        "coverage": {
            "explanation": (
                "Bounded symbolic checking of the real code.  Engine S: each obligation is a generated harness that drives the "
                "real rv functions from /repo's working tree under CrossHair 0.0.110 (symbolic execution, z3 decides every branch and the "
                "negated post-condition); an obligation counts as discharged only on 'Confirmed over all paths' (path tree exhausted, "
                "every path unsat) AND its reachability twin violated.  Engine F: the function's AST is translated to QF_BVFP SMT-LIB "
                "and decided by z3 and cvc5.  Engine C rows are concrete side-conditions (no variable in them) and are not counted as "
                "solver obligations.  The verdict is universal inside each obligation's stated shape and widths and says nothing outside "
                "them; see 'bounds' and DESIGN.md. " + getattr(mod, "EXPLANATION", "")
            ),
            "obligations": len(results),
            "discharged": n_dis,
            "attributed_to_known_findings": sum(1 for r in results if r["verdict"] == "known"),
            "inconclusive": sum(1 for r in results if r["verdict"] == "inconclusive"),
            "harness_errors": sum(1 for r in results if r["verdict"] == "harness_error"),
            "solver_obligations": sum(1 for r in results if r.get("engine") in ("S", "F")),
            "concrete_side_conditions": sum(1 for r in results if r.get("engine") == "C"),
            "evaluations": sum(int(r.get("paths", 0)) + int(r.get("queries", 0)) for r in results) or len(results),
            "distinct_nontrivial": nontrivial,
            "rule": "one evaluation = one symbolic path explored by CrossHair (each ends in a z3 query) or one SMT-LIB query; "
                    "an obligation is distinct by id (shape x field group) and non-trivial if the solver explored at least one feasible path/query for it",
            "queries_discharged": sum(int(r.get("paths", 0)) + int(r.get("queries", 0)) for r in results if r["verdict"] == "discharged"),
            "solver_cpu_s": round(sum(float(r.get("cpu_s", 0)) for r in results), 1),
            "functions_encoded": sorted(funcs)[:400],
            "bounds": getattr(mod, "BOUNDS", {}).get(tier, getattr(mod, "BOUNDS", {})),
            "outside_claim": getattr(mod, "OUTSIDE", []),
            "samples": samples,
            "exhaustive": False,
            "known_findings": [{"name": k, "still_reproduces": v, "obligations_hit": knownhits.get(k, [])} for k, v in alive.items()],
            "per_obligation": [
                {k: r.get(k) for k in ("oid", "verdict", "state", "paths", "cpu_s", "queries", "engine", "shape", "symbolic") if r.get(k) not in (None, "")}
                for r in results
            ],
            "stub_model_selftest": "bit-operation model vs Python ints: vectors, mismatches = " + SELFTEST.get("result", "?"),
            "checker_cmd": f"./check {pid} --tier {tier}",
            "trusted_base": ["CrossHair 0.0.110 symbolic models of int/bool/bytes/str/list", "z3 5.1.0 (wheel)", "cvc5 1.4.0 (wheel)", "the hand-written oracles in /verif/vf (refformat.py, invariants)"] + chplug_stubs.STUBS,
        },
        "assumptions": chplug_stubs.STUBS + getattr(mod, "ASSUMPTIONS", []),
        "wall_s": round(wall, 1),
        "violations": sum(1 for r in results if r["verdict"] == "violation"),
    }
    os.makedirs(os.path.join(ROOT, "evidence"), exist_ok=True)
    with open(os.path.join(ROOT, "evidence", pid + ".json"), "w") as f:
        json.dump(ev, f, indent=1, default=str)


if __name__ == "__main__":
    sys.exit(main())
