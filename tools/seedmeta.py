#!/usr/bin/env python3
"""Record the sub-agent changes kept under /verif/seeded/<ID>/ (patch.diff, demo, meta.json)."""
import json, os, shutil, sys
META = {
 "C01": ("SNAM boundary back-off loop tests `name[cut] & 0x80` (any non-ASCII byte) instead of the continuation-byte mask: names longer than 32 bytes with a non-ASCII byte at index 32 are cut too short (even to '')",
         "a module name whose UTF-8 form exceeds 32 bytes with a non-ASCII byte at index 32"),
 "C02": ("Generator.load_drawn_waveform converts unsigned->signed with `y - 256 if y > 128 else y` (should be >=): sample -128 loads as +128",
         "a Generator drawn waveform containing the sample value -128 exactly"),
 "C03": ("sampler _StructWriter.char pads with `value + b'\\0' * (width - len(value))` without truncating: a name longer than 22 bytes grows the instrument / sample record and shifts every later field",
         "a Sampler instrument_name or Sample.name longer than 22 bytes"),
 "C04": ("override_raise_controller_value_errors sets the flag to True on exit instead of restoring the saved value: after the nested load of a MetaModule's embedded project the outer load is strict",
         "a file with a MetaModule followed by a stored controller value outside the known range"),
 "C05": ("Module.get_raw uses controller.value_type instead of instance_value_type: MetaModule user-defined controllers mapped onto a negative-minimum controller lose the offset on save and drift by |min| per cycle",
         "a MetaModule with a user-defined controller mapped onto e.g. Amplifier.balance, two load/save cycles"),
 "C06": ("Sampler.sample_data_chunks filters None before enumerate: chunk numbers come from the position among non-empty slots, so samples after an empty slot slide down on save",
         "a sampler whose occupied sample slots are not contiguous (delete a middle sample / add one past a gap)"),
 "C07": ("Project.connect reuses a freed out-slot but records len(out_links) in the destination's in_link_slots first: the two ends disagree",
         "a connect whose source already has a freed outgoing slot (connect, disconnect, connect again from the same source)"),
 "C08": ("the SLnK-emission test becomes `sum(in_link_slots) > 0`: freed slots (-1) cancel positive slots and the slot chunk is silently omitted",
         "a module with a freed in-slot and a live link on a non-zero out-slot of its source, e.g. in_link_slots == [-1, 1] (4-step sequence)"),
 "C09": ("Module.__init__ uses `kw.get(k) or controller.default`: falsy constructor keyword values (0, False, zero-valued enum member) are replaced by the default; an out-of-range 0 is not rejected",
         "the constructor-keyword path with a falsy value for a controller whose default is truthy"),
 "C10": ("Controller.pattern_value precomputes `scale = 0x8000 / span; int(shifted * scale)`: for spans 1530, 22000, 239 the product rounds just below 32768 and the range maximum encodes to 0x7fff",
         "a ranged controller with span 1530 / 22000 / 239 at (or next to) its maximum"),
 "C11": ("Option.__set__ clamp guard `if self.min and self.max` (truthiness) skips the clamp for MetaModule.user_defined_controllers whose min is 0",
         "an out-of-range value assigned to user_defined_controllers"),
 "C12": ("Pattern.raw_data emits 8 zero bytes for cells where note.is_empty() (which ignores the module column): module-only cells are dropped on save",
         "a pattern cell whose only non-zero field is the module number"),
 "C13": ("generator template guard `{% if ospec.min and ospec.max %}` + regenerated base/metamodule.py: the min=0/max=96 bounds of user_defined_controllers disappear from the generated class",
         "only one option of one type; shows as metadata (None, None) or when an out-of-range value is assigned"),
 "C14": ("Project.attach_module takes `empty_slots.pop()` (highest empty position) instead of the lowest",
         "a project with at least two empty positions (only reachable by loading a file with holes)"),
 "C15": ("override_raise_controller_value_errors sets True in its finally block: after the nested load of an embedded project the outer load raises on out-of-range stored values",
         "a MetaModule file whose stored user-defined value lies outside the mapped controller's range"),
 "C16": ("Sampler.load_chunk dispatch guards become `chnm < MAX_SAMPLES * 2` (0x100): the data chunk of sample slot 127 (CHNM 0x100) is ignored on load",
         "a sample in the last slot (index 127)"),
 "C17": ("MetaModule.MappingArray._set_bytes pads short mapping chunks with ONE shared Mapping object (class constant UNMAPPED)",
         "MetaModules loaded from files whose mapping chunk stores fewer than 96 entries (the shipped metamodule.sunsynth has 64), one padded slot mutated in place"),
 "C18": ("override_raise_controller_value_errors becomes a class-based context manager and read_sunvox_file reuses ONE module-level instance: not re-entrant, a nested load overwrites the saved value",
         "a load that contains a nested load (MetaModule project / Sampler effect) with the setting True before the call"),
 "C19": ("Pattern._install re-owns a note only `if note.pattern != self` (attrs value equality, not identity): deep-copied untouched cells of an UNATTACHED pattern compare equal and keep pointing at the copy",
         "a partial set_via_gen on a pattern that is not attached to a project"),
 "C20": ("MultiCtl.on_value_changed computes vmax = vt.max instead of vt.max - vt.min: for target ranges with a positive minimum the top of the window delivers max+1 (or min-1 reversed)",
         "a non-compact target range whose minimum is > 0, input in the top min/max fraction of the window"),
}

def main():
    res = json.load(open("/verif/.work/seed_results.json")) if os.path.exists("/verif/.work/seed_results.json") else {}
    for pid, (what, needs) in META.items():
        wt = f"/tmp/mut_{pid}"
        d = f"/verif/seeded/{pid}"
        if not os.path.exists(os.path.join(wt, "patch.diff")) and not os.path.exists(d):
            continue
        os.makedirs(d, exist_ok=True)
        if os.path.exists(wt):
            shutil.copy(os.path.join(wt, "patch.diff"), os.path.join(d, "patch.diff"))
            shutil.copy(os.path.join(wt, f"demo_{pid}.py"), os.path.join(d, f"demo_{pid}.py"))
        meta = {"property": pid, "change": what, "needs_to_manifest": needs,
                "origin": "independent sub-agent given only the property text and a scratch worktree of /repo (nothing from /verif)",
                "confirmed": "patch applies to /repo HEAD; existing suite with the change: 170 passed, 2 skipped; demo exits 1 with the change and 0 without (tools/seedtest.sh)",
                "checks_run": res.get(pid, {}).get("ran", f"./check {pid} --tier quick with the patch applied to /repo, undone afterwards"),
                "caught_by": res.get(pid, {}).get("caught_by", []),
                "notes": res.get(pid, {}).get("notes", "")}
        json.dump(meta, open(os.path.join(d, "meta.json"), "w"), indent=1)
    print("recorded", sorted(os.listdir("/verif/seeded")))

if __name__ == "__main__":
    main()
