import z3, time, sys, subprocess
F = z3.Float64(); RNE = z3.RNE(); RTZ = z3.RTZ()
BV = z3.BitVecSort(32)
def fpv(x): return z3.FPVal(float(x), F)
def i2f(bv): return z3.fpSignedToFP(RNE, bv, F)
def f2i(f): return z3.fpToSBV(RTZ, f, BV)
def fmin(a,b): return z3.If(z3.fpLT(b,a), b, a)
def stage1(gain, value, k, a, b):
    v = z3.fpDiv(RNE, i2f(value * gain), fpv(256))
    v = fmin(v, fpv(32768))
    bucket = f2i(z3.fpDiv(RNE, v, fpv(128)))
    start = bucket * 128
    offset = z3.fpSub(RNE, v, i2f(start))
    c = fmin(z3.fpDiv(RNE, offset, fpv(128)), fpv(1.0))
    t = f2i(z3.fpAdd(RNE, z3.fpMul(RNE, c, fpv(a)), z3.fpMul(RNE, z3.fpSub(RNE, fpv(1.0), c), fpv(b))))
    return bucket, t
for gain, k, a, b in ((256, 100, 12928, 12800), (1000, 37, 9000, 4100), (77, 255, 32768, 32640), (1024, 256, 32768, 32768)):
    value = z3.BitVec('value', 32)
    s = z3.Solver()
    s.add(z3.ULT(value, 32768))
    bk0, t0 = stage1(gain, value, k, a, b); bk1, t1 = stage1(gain, value + 1, k, a, b)
    s.add(bk0 == k)
    s.add(z3.Or(t0 < b, t0 > a, z3.And(bk1 == k, t0 > t1)))
    open("q6.smt2", "w").write("(set-logic QF_BVFP)\n" + s.to_smt2())
    s.set("timeout", 60000)
    t = time.time(); r = s.check(); print(gain, k, "z3", r, round(time.time() - t, 1)); sys.stdout.flush()
    t = time.time()
    out = subprocess.run(["cvc5", "--tlimit=60000", "q6.smt2"], capture_output=True, text=True)
    print(gain, k, "cvc5", out.stdout.strip()[:100], out.stderr.strip()[:100], round(time.time() - t, 1)); sys.stdout.flush()
