"""C19 — bulk pattern edits are all-or-nothing and notes stay owned by their pattern."""
import random

from vf.harness import B, R, U8, U16, Ob, build

EXPLANATION = (
    "C19: Pattern.set_via_fn / set_via_gen on patterns of concrete shape with symbolic previous content; the callable fails at a SYMBOLIC cell "
    "(line, track) / the generator at a SYMBOLIC yield index (or never).  Failure => contents byte-identical to before and the same note objects; "
    "success => exactly the supplied notes installed, untouched cells keep their content, and every note's .pattern is the pattern (so note.project / "
    "note.mod keep working).  Two successive bulk edits are covered by chaining; history.2x2.* runs two edits of SYMBOLIC kind (function / generator), each failing at a symbolic point or not, "
    "against a cell-by-cell model after every step (a failed edit must leave no trace in the next one)."
)
BOUNDS = {"quick": {"shapes": "1x1, 2x2, 3x2 (lines x tracks), attached and not attached", "failure position": "every cell / every yield index / never (symbolic)", "content": "vel/ctl/val of every cell symbolic", "histories": "2x2, two edits, kind x failure point of each symbolic (100 combinations)"},
          "thorough": {"shapes": "all lines x tracks <= 3x3", "failure position": "as quick", "content": "as quick"}}
OUTSIDE = ["patterns larger than 3x3", "more than two successive bulk edits"]
ASSUMPTIONS = ["the supplied callable returns fresh Note objects (documented contract: 'expected to return a Note')"]

SETUP = '''from rv.errors import PatternOwnershipError


class Boom(Exception):
    pass
'''


def obligations(tier, seed):
    rnd = random.Random(seed)
    obs = []
    # the callable's failure is an exception of a kind cycled over the shapes: a custom exception, StopIteration (which
    # iterator plumbing can swallow; inside a generator PEP 479 turns it into RuntimeError) and KeyError
    shapes = [(1, 1), (2, 2), (3, 2)] if tier == "quick" else [(l, t) for l in (1, 2, 3) for t in (1, 2, 3)]
    kinds = ["Boom", "StopIteration", "KeyError"]
    for si_, (L, T) in enumerate(shapes):
        for attached in (False, True):
            exc = kinds[(si_ + (1 if attached else 0)) % len(kinds)]
            ncell = L * T
            params = []
            fills = []
            for c in range(ncell):
                params += [R(f"v{c}", 0, 129), U16(f"c{c}"), U16(f"w{c}")]
                fills.append(f"    pat.data[{c // T}][{c % T}].vel = v{c}\n    pat.data[{c // T}][{c % T}].ctl = c{c}\n    pat.data[{c // T}][{c % T}].val = w{c}")
            fill = "\n".join(fills)
            mk = f"""
    pat = Pattern(lines={L}, tracks={T})
{fill}
    proj = None
    if {attached}:
        proj = Project()
        proj.attach_pattern(pat)
    before = pat.raw_data
    objs = [n for line in pat.data for n in line]
"""
            own = """
    for line in pat.data:
        for n in line:
            if n.pattern is not pat:
                return False
            if proj is not None and n.project is not proj:
                return False
"""
            # ---- set_via_fn: failure at symbolic cell (fl, ft); fl == L means never --------------
            body = mk + f"""
    def fn(p_, line, track):
        if line == fl and track == ft:
            raise EXC()
        return Note(vel=nv, module=line + 1, ctl=track)
    try:
        r = pat.set_via_fn(fn)
    except EXC:
        if fl >= {L}:
            return False
        now = [n for line in pat.data for n in line]
        return pat.raw_data == before and len(now) == len(objs) and all(a is b for a, b in zip(now, objs))
    if fl < {L} or r is not pat:
        return False
    for line in range({L}):
        for track in range({T}):
            n = pat.data[line][track]
            if not (n.vel == nv and n.module == line + 1 and n.ctl == track and n.val == 0):
                return False
""" + own + "    return True\n"
            obs.append(Ob(f"fn.{L}x{T}.{'att' if attached else 'free'}", build(params + [R("fl", 0, L), R("ft", 0, T - 1), R("nv", 0, 129)], body, setup=SETUP + f"EXC = {exc}\n"),
                          "set_via_fn: a failure at any cell leaves the pattern exactly as before; success installs exactly the supplied notes and every note belongs to the pattern",
                          group="fn", shape=f"{L}x{T}, {'attached to a project' if attached else 'not attached'}", symbolic="failing cell (or never), previous content of every cell, new velocity", timeout=240))
            # ---- set_via_gen: generator yields k cells then fails at yield index j (j == ncell+1: never) ----
            order = list(range(ncell))
            rnd.shuffle(order)
            sub = order[: max(1, ncell - 1)]  # leave one cell untouched when possible
            ys = ", ".join(f"({c // T}, {c % T})" for c in sub)
            body = mk + f"""
    cells = [{ys}]
    def gen(p_, new):
        k = 0
        for (l, t) in cells:
            if k == j:
                raise EXC()
            yield l, t, Note(vel=nv, val=k)
            k += 1
        if k == j:
            raise EXC()
    try:
        r = pat.set_via_gen(gen)
    except (EXC, RuntimeError):
        if j > len(cells):
            return False
        now = [n for line in pat.data for n in line]
        return pat.raw_data == before and all(a is b for a, b in zip(now, objs))
    if j <= len(cells) or r is not pat:
        return False
    k = 0
    for (l, t) in cells:
        n = pat.data[l][t]
        if not (n.vel == nv and n.val == k):
            return False
        k += 1
    # untouched cells keep their previous content
    for c in range({ncell}):
        l, t = c // {T}, c % {T}
        if (l, t) not in cells and pat.data[l][t].raw_data != before[c * 8:c * 8 + 8]:
            return False
""" + own + "    return True\n"
            obs.append(Ob(f"gen.{L}x{T}.{'att' if attached else 'free'}", build(params + [R("j", 0, len(sub) + 1), R("nv", 0, 129)], body, setup=SETUP + f"EXC = {exc}\n"),
                          "set_via_gen: a failure at any yield index leaves the pattern exactly as before; success installs the yielded notes, keeps untouched cells, and every note belongs to the pattern",
                          group="gen", shape=f"{L}x{T}, {'attached' if attached else 'not attached'}; generator visits cells {sub}", symbolic="failing yield index (or never), previous content, new velocity", timeout=240))
        if (L, T) == (2, 2):
            for exc2 in kinds:
                body2 = f"""
    pat = Pattern(lines=2, tracks=2)
    pat.data[1][0].vel = v0
    before = pat.raw_data
    objs = [n for line in pat.data for n in line]
    def fn(p_, line, track):
        if line * 2 + track == c:
            raise {exc2}()
        return Note(vel=nv)
    try:
        pat.set_via_fn(fn)
    except {exc2}:
        now = [n for line in pat.data for n in line]
        return c < 4 and pat.raw_data == before and all(a is b for a, b in zip(now, objs))
    return c >= 4 and all(n.vel == nv and n.pattern is pat for line in pat.data for n in line)
"""
                obs.append(Ob(f"fn.kind.{exc2}", build([R("c", 0, 4), R("v0", 0, 129), R("nv", 0, 129)], body2, setup=SETUP), f"set_via_fn with a callable failing by {exc2} at any cell: the exception reaches the caller and the pattern is unchanged",
                              group="fn", shape="2x2 unattached", symbolic="failing cell 0..3 or never, contents", timeout=120))
        # histories: two successive bulk edits, each of a symbolic kind (fn / gen) and each failing at a symbolic point or not at
        # all, checked against a cell-by-cell model after every step (a failed edit must leave no trace in a later successful one)
        if (L, T) == (2, 2):
            for attached in (False, True):
                body = f"""
    pat = Pattern(lines=2, tracks=2)
    pat.data[0][0].vel = v0
    pat.data[0][1].vel = v1
    pat.data[1][0].vel = v2
    pat.data[1][1].vel = v3
    proj = None
    if {attached}:
        proj = Project()
        proj.attach_pattern(pat)
    model = [pat.data[c_ // 2][c_ % 2].raw_data for c_ in range(4)]
    visits = [[(0, 1), (1, 0)], [(1, 1)]]
    for step, (kind, j, nv) in enumerate(((k1, j1, n1), (k2, j2, n2))):
        before = pat.raw_data
        objs = [n for line in pat.data for n in line]
        cells = visits[step]
        if kind == 0:
            def fn(p_, line, track):
                if line * 2 + track == j:
                    raise Boom()
                return Note(vel=nv, ctl=step + 1)
            try:
                pat.set_via_fn(fn)
                ok = True
            except Boom:
                ok = False
            if ok != (j >= 4):
                return False
            if ok:
                model = [Note(vel=nv, ctl=step + 1).raw_data] * 4
        else:
            def gen(p_, new):
                k = 0
                for (l, t) in cells:
                    if k == j:
                        raise Boom()
                    yield l, t, Note(vel=nv, val=k + 1)
                    k += 1
                if k == j:
                    raise Boom()
            try:
                pat.set_via_gen(gen)
                ok = True
            except Boom:
                ok = False
            if ok != (j > len(cells)):
                return False
            if ok:
                k = 0
                for (l, t) in cells:
                    model[l * 2 + t] = Note(vel=nv, val=k + 1).raw_data
                    k += 1
        now = [n for line in pat.data for n in line]
        if not ok and (pat.raw_data != before or not all(a is b for a, b in zip(now, objs))):
            return False
        if [n.raw_data for n in now] != model:
            return False
        for n in now:
            if n.pattern is not pat or (proj is not None and n.project is not proj):
                return False
    return True
"""
                obs.append(Ob(f"history.2x2.{'att' if attached else 'free'}", build([R("v0", 0, 129), R("v1", 0, 129), R("v2", 0, 129), R("v3", 0, 129), R("k1", 0, 1), R("j1", 0, 4), R("n1", 0, 129), R("k2", 0, 1), R("j2", 0, 4), R("n2", 0, 129)], body, setup=SETUP),
                              "two successive bulk edits of any kind (function / generator), each failing at any point or completing: after every step the pattern equals the cell-by-cell model "
                              "(a failed edit leaves it exactly as before AND leaves no trace in the next edit; untouched cells keep their content), notes stay owned",
                              group="history", shape=f"2x2 {'attached' if attached else 'not attached'}; generator visits (0,1),(1,0) then (1,1)", symbolic="kind and failure point of both edits, previous velocities, new velocities", timeout=300))
        # two successive edits, then project-aware accessors
        body = f"""
    proj = Project()
    amp = proj.new_module(__import__("rv.api").api.m.Amplifier)
    pat = Pattern(lines={L}, tracks={T})
    proj.attach_pattern(pat)
    pat.set_via_fn(lambda p_, l, t: Note(vel=a, module=2))
    def gen(p_, new):
        yield 0, 0, Note(vel=b_, module=2)
    pat.set_via_gen(gen)
    for line in pat.data:
        for n in line:
            if n.pattern is not pat or n.project is not proj or n.mod is not amp:
                return False
    first = pat.data[0][0]
    return first.vel == b_ and all(n.vel == a for i, line in enumerate(pat.data) for k, n in enumerate(line) if (i, k) != (0, 0))
"""
        obs.append(Ob(f"twice.{L}x{T}", build([R("a", 0, 129), R("b_", 0, 129)], body, setup=SETUP), "after two successive bulk edits project-aware accessors (note.project, note.mod) work on every note",
                      group="twice", shape=f"{L}x{T} attached", symbolic="two velocities", timeout=120))
    return obs
