#!/venv/bin/python
# Replay of a solver counterexample against the real library: no CrossHair, no stubs, real io.BytesIO.
# property C01  obligation pat.cmd.2x2
# a cell holding any NOTECMD member survives save/load inside a project
# exit 1 = the property fails for this input on the current /repo tree; exit 0 = it holds.
import os, sys
os.environ["VF_REPLAY"] = "1"
sys.path.insert(0, "/verif")
ARGS = (0, 0, 1, 0, 0)
KWARGS = {}
HARNESS = 'from vf.prelude import *\nfrom rv.modules import MODULE_CLASSES\nfrom vf.invariants import *\n\n\ndef h(n: int, vel: int, mo: int, ct: int, va: int) -> bool:\n    """\n    pre: ((0 <= n <= 120 or 128 <= n <= 134 or n == 140)) and (0 <= vel <= 129) and (0 <= mo <= 65535) and (0 <= ct <= 65535) and (0 <= va <= 65535)\n    post: _\n    """\n    p = Project()\n    pat = Pattern(lines=2, tracks=2)\n    _cells = [Note(note=NOTECMD(81), vel=113), Note(note=NOTECMD(59), vel=70), Note(note=NOTECMD(48), vel=25), Note(note=NOTECMD(n), vel=vel, module=mo, ctl=ct, val=va)]\n    pat.set_via_fn(lambda pat, l, t: _cells[l * 2 + t])\n    p.attach_pattern(pat)\n    s1 = snap_project(p, groups=("patterns",))\n    q = rt(p)\n    return same(s1, snap_project(q, groups=("patterns",)))\n\n\ndef h__reach(n: int, vel: int, mo: int, ct: int, va: int) -> bool:\n    """\n    pre: ((0 <= n <= 120 or 128 <= n <= 134 or n == 140)) and (0 <= vel <= 129) and (0 <= mo <= 65535) and (0 <= ct <= 65535) and (0 <= va <= 65535)\n    post: _\n    """\n    h(n, vel, mo, ct, va)\n    return False\n'
ns = {"__name__": "vf_replay"}
exec(compile(HARNESS, "<harness pat.cmd.2x2>", "exec"), ns)
try:
    ok = ns['h'](*ARGS, **KWARGS)
except Exception as e:
    import traceback; traceback.print_exc()
    print("replay: raised", type(e).__name__, e)
    sys.exit(1)
print("replay: h(*%r, **%r) returned %r" % (ARGS, KWARGS, ok))
sys.exit(0 if ok else 1)
