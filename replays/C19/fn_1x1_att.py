#!/venv/bin/python
# Replay of a solver counterexample against the real library: no CrossHair, no stubs, real io.BytesIO.
# property C19  obligation fn.1x1.att
# set_via_fn: a failure at any cell leaves the pattern exactly as before; success installs exactly the supplied notes and every note belongs to the pattern
# exit 1 = the property fails for this input on the current /repo tree; exit 0 = it holds.
import os, sys
os.environ["VF_REPLAY"] = "1"
sys.path.insert(0, "/verif")
ARGS = (0, 0, 0, 0, 0, 0)
KWARGS = {}
HARNESS = 'from vf.prelude import *\nfrom rv.errors import PatternOwnershipError\n\n\nclass Boom(Exception):\n    pass\nEXC = StopIteration\n\n\ndef h(v0: int, c0: int, w0: int, fl: int, ft: int, nv: int) -> bool:\n    """\n    pre: (0 <= v0 <= 129) and (0 <= c0 <= 65535) and (0 <= w0 <= 65535) and (0 <= fl <= 1) and (0 <= ft <= 0) and (0 <= nv <= 129)\n    post: _\n    """\n    pat = Pattern(lines=1, tracks=1)\n    pat.data[0][0].vel = v0\n    pat.data[0][0].ctl = c0\n    pat.data[0][0].val = w0\n    proj = None\n    if True:\n        proj = Project()\n        proj.attach_pattern(pat)\n    before = pat.raw_data\n    objs = [n for line in pat.data for n in line]\n\n    def fn(p_, line, track):\n        if line == fl and track == ft:\n            raise EXC()\n        return Note(vel=nv, module=line + 1, ctl=track)\n    try:\n        r = pat.set_via_fn(fn)\n    except EXC:\n        if fl >= 1:\n            return False\n        now = [n for line in pat.data for n in line]\n        return pat.raw_data == before and len(now) == len(objs) and all(a is b for a, b in zip(now, objs))\n    if fl < 1 or r is not pat:\n        return False\n    for line in range(1):\n        for track in range(1):\n            n = pat.data[line][track]\n            if not (n.vel == nv and n.module == line + 1 and n.ctl == track and n.val == 0):\n                return False\n\n    for line in pat.data:\n        for n in line:\n            if n.pattern is not pat:\n                return False\n            if proj is not None and n.project is not proj:\n                return False\n    return True\n\n\ndef h__reach(v0: int, c0: int, w0: int, fl: int, ft: int, nv: int) -> bool:\n    """\n    pre: (0 <= v0 <= 129) and (0 <= c0 <= 65535) and (0 <= w0 <= 65535) and (0 <= fl <= 1) and (0 <= ft <= 0) and (0 <= nv <= 129)\n    post: _\n    """\n    h(v0, c0, w0, fl, ft, nv)\n    return False\n'
ns = {"__name__": "vf_replay"}
exec(compile(HARNESS, "<harness fn.1x1.att>", "exec"), ns)
try:
    ok = ns['h'](*ARGS, **KWARGS)
except Exception as e:
    import traceback; traceback.print_exc()
    print("replay: raised", type(e).__name__, e)
    sys.exit(1)
print("replay: h(*%r, **%r) returned %r" % (ARGS, KWARGS, ok))
sys.exit(0 if ok else 1)
