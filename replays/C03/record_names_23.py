#!/venv/bin/python
# Replay of a solver counterexample against the real library: no CrossHair, no stubs, real io.BytesIO.
# property C03  obligation record.names.23
# instrument and sample names of 23 bytes: stored in the 22-byte fields (longer names cut), records keep their fixed sizes and later fields their offsets
# exit 1 = the property fails for this input on the current /repo tree; exit 0 = it holds.
import os, sys
os.environ["VF_REPLAY"] = "1"
sys.path.insert(0, "/verif")
ARGS = (1, 1, 1)
KWARGS = {}
HARNESS = 'from vf.prelude import *\nfrom rv.modules import MODULE_CLASSES\nfrom vf.invariants import *\nfrom vf import refformat as RF\nSMP = MODULE_CLASSES["Sampler"]\nSG = ("type", "payload")\n\n\ndef rt_sampler(s):\n    data = save_bytes(Synth(s))\n    t = load_bytes(data).module\n    return data, t\n\n\ndef rec_of(data, chnm):\n    ver, md = RF.decode_synth(data)\n    r = [c for c in md["chunks"] if c["chnm"] == chnm]\n    return r[0] if len(r) == 1 else None\n\n\ndef h(c0: int, c1: int, c2: int) -> bool:\n    """\n    pre: (1 <= c0 <= 255) and (1 <= c1 <= 255) and (1 <= c2 <= 255)\n    post: _\n    """\n    s = SMP()\n    nm = bytes([c0, 66, 67, 68, 69, 70, 71, 72, 73, 74, 75, 76, 77, 78, 79, 80, 81, 82, 83, 84, 85, c1, c2])\n    s.instrument_name = nm\n    a = SMP.Sample()\n    a.data = b"ab"\n    a.format = SMP.Format.int8\n    a.channels = SMP.Channels.mono\n    a.name = nm\n    s.samples[2] = a\n    data, t = rt_sampler(s)\n    r0 = rec_of(data, 0)["chdt"]\n    r5 = rec_of(data, 5)["chdt"]\n    if len(r0) != 400 or len(r5) != 44 or bytes(r0[0xfc:0x100]) != b"PMAS" or RF.rd_u16(r0, 0x1c) != 3:\n        return False\n    return t.instrument_name == nm[:22] and t.samples[2].name == nm[:22] and bytes(r0[4:4 + 22]) == nm[:22] and bytes(r5[0x12:0x12 + 22]) == nm[:22] and t.samples[2].data == b"ab"\n\n\ndef h__reach(c0: int, c1: int, c2: int) -> bool:\n    """\n    pre: (1 <= c0 <= 255) and (1 <= c1 <= 255) and (1 <= c2 <= 255)\n    post: _\n    """\n    h(c0, c1, c2)\n    return False\n'
ns = {"__name__": "vf_replay"}
exec(compile(HARNESS, "<harness record.names.23>", "exec"), ns)
try:
    ok = ns['h'](*ARGS, **KWARGS)
except Exception as e:
    import traceback; traceback.print_exc()
    print("replay: raised", type(e).__name__, e)
    sys.exit(1)
print("replay: h(*%r, **%r) returned %r" % (ARGS, KWARGS, ok))
sys.exit(0 if ok else 1)
