"""The environment stubs in force in every Engine-S harness process (part of every claim)."""
STUBS = [
    "io.BytesIO -> vf.symio.PyFile (pure-Python seekable byte list) at the places rv creates one (rv.container, rv.modules.module.io, rv.modules.sampler, rv.modules.metamodule) and for the files handed to write_to/read_sunvox_file; replays use the real io.BytesIO",
    "logging.disable(CRITICAL) (LogRecord creation reads the clock, which CrossHair makes symbolic)",
    "str.format on templates containing 'is not within' returns a placeholder (the two range-error messages; formatting would realise symbolic ints)",
    "int|int, int^int, int&int with a symbolic operand: integer bit-decomposition model (fresh 0/1 digits, linear arithmetic; 16/32-bit unsigned or 64-bit two's complement chosen by a forked range guard, realisation outside +-2^63); x & contiguous-constant-mask is div/mod arithmetic (stock CrossHair realises all of these except x & (2^k-1)); the model is validated against Python ints on concrete vectors by vf/selftest.py on every run",
    "int(obj) for rv objects defining __int__ (Visualization): module-global `int` shadowed in rv.modules.module so that __int__ is called directly (the C-level int() rejects a symbolic return value)",
    "crosshair.core.suspected_proxy_intolerance_exception disabled: a TypeError naming a symbolic type is reported (and must replay) instead of the path being silently skipped",
    "solver portfolio: when CrossHair's incremental z3 answers unknown, the same assertions are re-decided by fresh z3 solvers (arith.solver 2 / default / 6, 20 s each) before the path is given up",
    "`int in <symbolic bytes>` compares element by element (stock CrossHair realises the whole byte string)",
    "pack/unpack memo: int.from_bytes(x.to_bytes(n, order, signed=s), order, signed=s) returns x itself when the very same byte terms come back with the same order and signedness (otherwise the stock byte-wise model is used, so width/signedness mismatches between writer and reader are still modelled)",
    "bytes.ljust on symbolic bytes pads symbolically (stock CrossHair realises the value)",
    "module-global `str` shadowed in rv.controller so that str(<exception carrying symbolic ints>) (only used for a log line in WarnOnlyRange.validate) returns a placeholder",
    "text inputs exclude NUL and lone surrogates (C strings, UTF-8)",
]
