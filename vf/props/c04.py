"""C04 — loading decodes foreign files per the format and skips unknown chunks."""
import glob
import os
import random

from vf import spec
from vf.harness import B, I32, R, U8, U16, U32, Ob, build

EXPLANATION = (
    "C04: byte streams come from the independent reference encoder (vf/refformat.py, written from the documentation and the YAML, never importing rv) or "
    "are shipped fixtures re-emitted chunk by chunk by the reference codec; stored values are symbolic at their documented widths.  The real reader loads them and "
    "every public field must equal what the documented encoding denotes.  Structure-preserving edits (unknown chunk with symbolic payload at a SYMBOLIC position, "
    "dropped optional chunks, truncated/extended CVAL lists, reordered header chunks, SEND-only module slots) are decided differentially: the loaded snapshot must "
    "equal the snapshot of the unedited stream except for the documented effect of the edit."
)
BOUNDS = {"quick": {"reference streams": "common module header (all fields, full widths) for 3 seeded types; CVAL lists of length 0, 1, n-1, n+1 for 8 seeded types (n: C13); project header with every optional chunk dropped; "
                                         "4-slot module lists with every subset of slots 1..3 empty; legacy version fix-ups; header chunks reversed; VERS/BVER in either order and position",
                    "unknown chunks": "ids ZZZZ/abcd/CHNX/SLNk, payload length 0/1/5 with symbolic bytes, inserted at a symbolic position (every chunk boundary) of 2 reference streams and 5 seeded fixtures <= 600 bytes; and between every pair of chunks simultaneously"},
          "thorough": {"reference streams": "all types", "unknown chunks": "all fixtures <= 3 KB"}}
OUTSIDE = ["malformed framing (C18)", "unknown ids that collide with a handler of the reader", "stored enum values that are not members of the YAML table (the loader raises ValueError -- recorded in DESIGN.md as an observation, the property speaks of documented encodings)"]
ASSUMPTIONS = ["foreign files carry the type's default flag bits in SFFF (SunVox always writes them; the loader ORs them in)"]

SETUP = '''from rv.modules import MODULE_CLASSES
from vf import refformat as RF
from vf.invariants import *


def snap_any(o):
    if hasattr(o, "modules"):
        return snap_project(o)
    return [("synth_version", tuple(o.loaded_sunsynth_version))] + snap_module(o.module)


def pick(seq, sel):
    """seq[sel] for a symbolic selector, as a forked linear search (concrete on every path)"""
    for i in range(len(seq)):
        if sel == i:
            return i
    return len(seq) - 1
'''


def common_obs(tier, rnd, S):
    obs = []
    types = ["Amplifier"] + rnd.sample([t for t in S if t not in ("Amplifier", "MetaModule", "Sampler", "Output", "Smooth")], 2 if tier == "quick" else 12)
    for mt in types:
        fl = S[mt]["flags"]
        for ctx in ("synth", "project"):
            ip = ctx == "project"
            groups = [[("fl", "u32"), ("sc", "u32"), ("r", "u8"), ("g", "u8"), ("b", "u8"), ("mii", "u32"), ("moc", "u32"), ("vis", "u32")],
                      [("fin", "s32"), ("rel", "s32"), ("bank", "s32")], [("prog", "s32"), ("x", "s32"), ("y", "s32")], [("layer", "s32")]]
            for gi, grp in enumerate(groups):
                names = {n for n, _ in grp}
                if not ip and not (names - {"x", "y", "layer", "vis"}):
                    continue
                params = [{"u32": U32, "s32": I32, "u8": U8}[k](n) for n, k in grp]
                v = lambda n, d: n if n in names else str(d)
                kw = (f"flags={fl} | {v('fl', 0)}, scale={v('sc', 256)}, color=({v('r', 1)}, {v('g', 2)}, {v('b', 3)}), midi_in={v('mii', 0)}, midi_out_channel={v('moc', 0)}, "
                      f"finetune={v('fin', 0)}, relative_note={v('rel', 0)}, midi_out_bank={v('bank', -1)}, midi_out_program={v('prog', -1)}")
                exp = [f"m.flags == ({fl} | {v('fl', 0)})", f"m.scale == {v('sc', 256)}", f"tuple(m.color) == ({v('r', 1)}, {v('g', 2)}, {v('b', 3)})",
                       f"m.midi_in_always == (({v('mii', 0)}) % 2 == 1)", f"m.midi_in_channel == ({v('mii', 0)}) // 2", f"m.midi_out_channel == {v('moc', 0)}",
                       f"m.mod_finetune == {v('fin', 0)}", f"m.mod_relative_note == {v('rel', 0)}", f"m.midi_out_bank == {v('bank', -1)}", f"m.midi_out_program == {v('prog', -1)}",
                       f"m.name == 'nm'", f"type(m) is MODULE_CLASSES[{mt!r}]", "m.midi_out_name is None"]
                if ip:
                    kw += f", x={v('x', 5)}, y={v('y', 6)}, layer={v('layer', 0)}, visualization={v('vis', 0x000C0101)}"
                    exp += [f"m.x == {v('x', 5)}", f"m.y == {v('y', 6)}", f"m.layer == {v('layer', 0)}", f"m.visualization.value == {v('vis', 0x000C0101)}"]
                    mk = f"data = RF.enc_project(modules=[RF.enc_output(), RF.enc_module({mt!r}, name='nm', in_project=True, {kw})])\n    m = load_bytes(data).modules[1]"
                else:
                    mk = f"data = RF.enc_synth({mt!r}, name='nm', {kw})\n    m = load_bytes(data).module"
                body = f"""
    {mk}
    return {' and '.join(exp)}
"""
                obs.append(Ob(f"common.{ctx}.{mt}.{gi}", build(params, body, setup=SETUP), f"{mt} ({ctx} file from the reference encoder): every common module field decodes to what its documented chunk denotes",
                              group="common", shape=f"REF-ENC {ctx}({mt})", symbolic=", ".join(n for n, _ in grp) + " at their documented widths", timeout=240))
    return obs


def cval_count_obs(tier, rnd, S):
    obs = []
    cand = [t for t, sp in S.items() if len([c for c in sp["controllers"] if c["attached"]]) >= 3 and t not in ("MetaModule", "Sampler", "Smooth")]
    types = rnd.sample(cand, 8) if tier == "quick" else cand
    for mt in types:
        sp = S[mt]
        att = [c for c in sp["controllers"] if c["attached"]]
        n = len(att)
        enum_choice = {c["name"]: rnd.choice(sorted(c["members"].items())) for c in att if c["kind"] == "enum"}
        for k in sorted({0, 1, n - 1, n + 1}):
            params, raws, checks = [], [], []
            nb = 0
            for i, c in enumerate(att):
                nm = c["name"]
                present = i < k
                if c["kind"] in ("range", "compact", "nooffset"):
                    lo, hi = c["min"], c["max"]
                    off = lo if (lo < 0 and c["kind"] != "nooffset") else 0
                    if present:
                        if len(params) < 24:
                            params.append(R(f"r{i}", max(lo, 0) if off == 0 else 0, hi - off))
                            raws.append(f"r{i}")
                            checks.append(f"m.{nm} == r{i} + ({off})")
                        else:
                            raws.append(str(max(c["default"] - off, 0)))
                    else:
                        checks.append(f"m.{nm} == {c['default']}")
                elif c["kind"] == "enum":
                    if present:
                        raws.append(str(enum_choice[nm][1]))
                        checks.append(f"m.{nm}.value == {enum_choice[nm][1]}")
                    else:
                        checks.append(f"m.{nm}.value == {c['members'][c['default']]}")
                elif c["kind"] == "bool":
                    if present:
                        if nb < 2:
                            nb += 1
                            params.append(R(f"r{i}", 0, 1))
                            raws.append(f"r{i}")
                            checks.append(f"m.{nm} == (r{i} == 1)")
                        else:
                            raws.append("1")
                            checks.append(f"m.{nm} == True")
                    else:
                        checks.append(f"m.{nm} == {c['default']!r}")
                elif c["kind"] == "dep":
                    if present:
                        unit_present = [j for j, c2 in enumerate(att) if c2["name"] == c["depends_on"]][0] < k
                        raws.append(str(c["default"]))
                        checks.append(f"m.{nm} == {c['default']}")
                    else:
                        checks.append(f"m.{nm} == {c['default']}")
            extra_cv = ", 12345" if k == n + 1 else ""
            if not params:
                params = [R("unused", 0, 1)]
            body = f"""
    data = RF.enc_synth({mt!r}, flags={sp['flags']}, cvals=[{', '.join(raws)}{extra_cv}])
    m = load_bytes(data).module
    return {' and '.join(checks)}
"""
            obs.append(Ob(f"cvals.{mt}.k{k}", build(params, body, setup=SETUP),
                          f"{mt} with {k if k <= n else str(n) + '+1'} stored controller values: the first ones decode into the first controllers, the remaining controllers keep the YAML defaults" + (", a surplus value is ignored" if k > n else ""),
                          group="cvals", shape=f"REF-ENC synth({mt}), {min(k, n + 1)} CVAL chunks of {n}", symbolic=f"{len(params)} stored values over their stored domains", timeout=240))
    return obs


def optional_obs(tier, rnd):
    obs = []
    opt = ["based_on_version", "flags", "sync", "timeline_position", "restart_position"]
    body = f"""
    omit = []
    if d0: omit.append("based_on_version")
    if d1: omit.append("flags")
    if d2: omit.append("sync")
    if d3: omit += ["timeline_position", "restart_position"]
    hdr = RF.enc_project_header(omit=omit, initial_bpm=bpm, modules_x_offset=xo, timeline_position=tp, restart_position=tp, flags=fl, sync=sy, based_on_version=(1, 9, 6, 1))
    p = load_bytes(RF.enc_project(header=hdr, patterns=[RF.enc_pattern([RF.enc_note()], 1, 1), RF.enc_pattern([RF.enc_note()], 1, 1, name="n")], modules=[RF.enc_output()]))
    ok = p.initial_bpm == bpm and p.modules_x_offset == xo
    ok = ok and tuple(p.based_on_version) == ((1, 7, 0, 0) if d0 else (1, 9, 6, 1))
    ok = ok and p.flags == (0 if d1 else fl)
    ok = ok and (p.receive_sync_midi, p.receive_sync_other) == ((1, 1) if d2 else (sy % 8, (sy // 8) % 8))
    ok = ok and p.timeline_position == (0 if d3 else tp) and p.restart_position == (0 if d3 else tp)
    ok = ok and p.patterns[0].name is None and p.patterns[1].name == "n"
    return ok and tuple(p.loaded_sunvox_version) == (2, 1, 2, 1)
"""
    obs.append(Ob("optional.project", build([B("d0"), B("d1"), B("d2"), B("d3"), U32("bpm"), I32("xo"), I32("tp"), U32("fl"), R("sy", 0, 63)], body, setup=SETUP),
                  "absent optional project chunks (BVER, FLGS, SFGS, TIME/REPS, PNME) leave the documented defaults; present ones decode", group="optional",
                  shape="REF-ENC project, every subset of {BVER, FLGS, SFGS, TIME+REPS} dropped", symbolic="which chunks are dropped (4 booleans), 5 field values", timeout=300))
    body = """
    mods = [RF.enc_output(links=[1], link_slots=([0] if s else None)), RF.enc_module("Amplifier", flags=0x51, in_project=True, cvals=[v], cmid=([] if c else None))]
    if n:
        mods[1] = mods[1] + [RF.ck(b"SMIN", list(b"dev") + [0])]
    p = load_bytes(RF.enc_project(modules=mods))
    m = p.modules[1]
    return m.volume == v and m.midi_out_name == ("dev" if n else None) and p.modules[0].in_links == [1] and links_ok(p) and m.controller_midi_maps["volume"].channel == 0
"""
    obs.append(Ob("optional.module", build([B("s"), B("c"), B("n"), R("v", 0, 1024)], body, setup=SETUP), "optional module chunks (SLnK, CMID content, SMIN) present or absent: documented defaults, nothing else changes",
                  group="optional", shape="REF-ENC project Output + Amplifier", symbolic="presence of SLnK / CMID entries / SMIN, one value", timeout=240))
    # header chunks in another order (independent chunks): same result
    body = """
    hdr = RF.enc_project_header(initial_bpm=a, initial_tpl=b_, global_volume=c, modules_y_offset=d)
    base = snap_project(load_bytes(RF.enc_project(header=hdr, modules=[RF.enc_output()])))
    h2 = hdr[:2] + list(reversed(hdr[2:]))
    swapped = snap_project(load_bytes(RF.enc_project(header=h2, modules=[RF.enc_output()])))
    return same(base, swapped)
"""
    obs.append(Ob("reorder.header", build([U32("a"), U32("b_"), U32("c"), I32("d")], body, setup=SETUP), "independent project header chunks in reverse order decode to the same project", group="reorder",
                  shape="REF-ENC project header, chunk order reversed after VERS", symbolic="4 field values", timeout=240))
    # the two version chunks are independent fields too: either order, and either one absent, gives each its own value
    body = """
    hdr = RF.enc_project_header(version=(v0, v1, v2, v3), based_on_version=(b0, b1, b2, b3), initial_bpm=a)
    assert bytes(hdr[1][:4]) == b"VERS" and bytes(hdr[2][:4]) == b"BVER"
    if order == 1:
        hdr = [hdr[0], hdr[2], hdr[1]] + hdr[3:]
    elif order == 2:
        hdr = [hdr[0]] + hdr[3:] + [hdr[2], hdr[1]]
    elif order == 3:
        hdr = [hdr[0]] + hdr[3:] + [hdr[1], hdr[2]]
    p = load_bytes(RF.enc_project(header=hdr, modules=[RF.enc_output()]))
    return tuple(p.loaded_sunvox_version) == (v0, v1, v2, v3) and tuple(p.based_on_version) == (b0, b1, b2, b3) and p.initial_bpm == a
"""
    obs.append(Ob("reorder.versions", build([R("order", 0, 3), U8("v0"), U8("v1"), U8("v2"), U8("v3"), U8("b0"), U8("b1"), U8("b2"), U8("b3"), U32("a")], body, setup=SETUP),
                  "VERS and BVER in either order, at the start or at the end of the header: each version field has the value its own chunk denotes", group="reorder",
                  shape="REF-ENC project header; VERS/BVER swapped and/or moved behind the other header chunks (symbolic selector)", symbolic="order selector, both version quadruples, BPM", timeout=240))
    return obs


def slot_obs(tier, rnd):
    obs = []
    body = """
    mods = [RF.enc_output()]
    want = [True]
    for i, present in enumerate((p1, p2, p3)):
        if present:
            mods.append(RF.enc_module("Amplifier", flags=0x51, in_project=True, x=x + i))
        else:
            mods.append(None)
        want.append(present)
    q = load_bytes(RF.enc_project(modules=mods))
    while want and not want[-1]:
        want.pop()
    if len(q.modules) != len(want):
        return False
    for i, w in enumerate(want):
        if (q.modules[i] is not None) != w:
            return False
        if w and i > 0 and (q.modules[i].x != x + i - 1 or q.modules[i].index != i):
            return False
    return index_ok(q)
"""
    obs.append(Ob("slots", build([B("p1"), B("p2"), B("p3"), R("x", -2**31, 2**31 - 4)], body, setup=SETUP), "module positions found in the file (including SEND-only empty ones) are never rearranged; trailing empties are dropped",
                  group="slots", shape="REF-ENC project: Output + 3 slots, every subset empty", symbolic="which slots are empty (3 booleans), a position value", timeout=240))
    return obs


def nested_obs():
    """a MetaModule (whose embedded project is read by a nested load) followed by values outside the known ranges:
    the whole file is still decoded per the format"""
    body = """
    inner = RF.enc_project(modules=[RF.enc_output(), RF.enc_module("Amplifier", flags=0x51, in_project=True, cvals=[iv])])
    mm = RF.enc_module("MetaModule", flags=0x8051, in_project=True, cvals=[256, 1, 0, w_bpm, 6], chunks=[(0, inner), (1, [0] * 384), (2, [0] * 8)], chnk=104)
    amp = RF.enc_module("Amplifier", flags=0x51, in_project=True, cvals=[w_vol, 128])
    p = load_bytes(RF.enc_project(modules=[RF.enc_output(), mm, amp]))
    m1, m2 = p.modules[1], p.modules[2]
    return (m2.volume == w_vol and m2.balance == 0 and m2.dc_offset == 0 and m1.bpm == w_bpm and m1.project.modules[1].volume == iv
            and type(m1).__name__ == "MetaModule" and len(p.modules) == 3)
"""
    body2 = """
    inner = RF.enc_project(modules=[RF.enc_output(), RF.enc_module("Amplifier", flags=0x51, in_project=True, cvals=[200, 128 + bal])])
    mapping = RF.u16(1) + RF.u16(1) + RF.u16(1) + RF.u16(0) + [0] * (4 * 94)       # user #1 -> module 1 controller index 1 (balance), user #2 -> volume
    opts = [2, 0, 0, 0, 0, 0, 0, 0]                                                      # 2 user-defined controllers (options byte 0)
    mm = RF.enc_module("MetaModule", flags=0x8051, cvals=[256, 1, 0, 125, 6, w1, w2], chunks=[(0, inner), (1, mapping), (2, opts)], chnk=104)
    m_ = load_bytes(RF.cat([RF.ck(b"SSYN"), RF.ck(b"VERS", [1, 2, 1, 2])] + mm + [RF.ck(b"SEND")])).module
    return (m_.user_defined_controllers == 2 and [c.attached(m_) for c in m_.user_defined][:3] == [True, True, False]
            and m_.user_defined_1 == w1 - 128 and m_.user_defined_2 == w2 and m_.project.modules[1].balance == bal)
"""
    extra = [Ob("nested.userdefined", build([R("w1", 0, 256), R("w2", 0, 1024), R("bal", -128, 128)], body2, setup=SETUP),
                "a reference-encoded MetaModule with two user-defined controllers and no label chunks: the controllers are attached and their stored values decode with the mapped controller's offset convention",
                group="nested", shape="REF-ENC synth(MetaModule[Output, Amplifier]); mapping table + options record, no CHNM >= 8", symbolic="two stored words, an embedded value", timeout=400)]
    return extra + [Ob("nested.lenient", build([R("w_vol", 0, 2**31 - 1), R("w_bpm", 0, 2**31 - 1), R("iv", 0, 2**31 - 1)], body, setup=SETUP),
               "a file with a MetaModule and stored controller values outside the known ranges (in the embedded project, on the MetaModule itself and on a later module) is decoded value by value",
               group="nested", shape="REF-ENC project [Output, MetaModule[Output, Amplifier], Amplifier]", symbolic="three stored controller words over 0..2^31-1 (in and out of range)", timeout=400)]


def legacy_obs():
    body = """
    hdr = RF.enc_project_header(version=(v0, v1, v2, v3))
    cells = [RF.enc_note(1, 2, m0, 3, 4), RF.enc_note(0, 0, m1, 0, 0)]
    p = load_bytes(RF.enc_project(header=hdr, patterns=[RF.enc_pattern(cells, tracks=2, lines=1)], modules=[RF.enc_output()]))
    old = (v0, v1, v2, v3) < (1, 9, 5, 0)
    n0, n1 = p.patterns[0].data[0]
    return n0.module == (m0 % 256 if old else m0) and n1.module == (m1 % 256 if old else m1) and n0.vel == 2 and n0.ctl == 3 and n0.val == 4
"""
    return [Ob("legacy.module_byte", build([U8("v0"), U8("v1"), U8("v2"), U8("v3"), U16("m0"), U16("m1")], body, setup=SETUP),
               "files older than 1.9.5.0 get the high byte of note module numbers cleared, newer files keep all 16 bits", group="legacy", shape="REF-ENC project, pattern 1x2",
               symbolic="4 version bytes, 2 module numbers (u16)", timeout=300)]


UNKNOWN = [b"ZZZZ", b"abcd", b"CHNX", b"SLNk"]


def unknown_obs(tier, rnd):
    from vf import refformat as RF
    obs = []
    streams = []
    streams.append(("ref_synth", bytes(RF.enc_synth("Amplifier", flags=0x51, cvals=[256, 128, 128, 0, 128, 0, 32768, 1, 16384]))))
    streams.append(("ref_project", bytes(RF.enc_project(patterns=[RF.enc_pattern([RF.enc_note(1, 2, 3, 4, 5)], 1, 1), None, RF.enc_clone(0)],
                                                        modules=[RF.enc_output(links=[1]), RF.enc_module("Amplifier", flags=0x51, in_project=True, cvals=[1, 2, 3]), None,
                                                                 RF.enc_module("Analog generator", flags=0x49, in_project=True, chunks=[(1, [0] * 14)], chnk=4)]))))
    files = sorted(glob.glob("/repo/tests/files/*.sunsynth") + glob.glob("/repo/tests/files/*.sunvox"))
    files = [f for f in files if os.path.getsize(f) <= 3000]
    pick = rnd.sample([f for f in files if os.path.getsize(f) <= 600], 5) if tier == "quick" else files
    for f in pick:
        streams.append((os.path.basename(f).replace(".", "_").replace("-", "_"), open(f, "rb").read()))
    for name, data in streams:
        chunks = RF.walk(data)
        offs = [0]
        for cid, pl in chunks:
            offs.append(offs[-1] + 8 + len(pl))
        offs = offs[1:]  # an unknown chunk may follow any chunk (never precede the magic chunk)
        for ln in ((1,) if tier == "quick" else (0, 1, 5)):
            cid = UNKNOWN[rnd.randrange(4)]
            for lo in range(0, len(offs), 25):
                hi = min(len(offs), lo + 25) - 1
                body = f"""
    base = snap_any(load_bytes(DATA))
    i = pick(OFFS, pos)
    o = OFFS[i]
    junk = RF.ck({cid!r}, [{', '.join(f'j{t}' for t in range(ln))}])
    edited = list(DATA[:o]) + junk + list(DATA[o:])
    return same(base, snap_any(load_bytes(edited)))
"""
                obs.append(Ob(f"unknown.one.{name}.{ln}.p{lo}", build([R("pos", lo, hi)] + [U8(f"j{t}") for t in range(ln)], body, setup=SETUP + f"DATA = {data!r}\nOFFS = {offs!r}\n"),
                              f"{name}: one chunk with unknown id {cid!r} and {ln} arbitrary payload byte(s) inserted after ANY chunk changes nothing in the loaded object", group="unknown",
                              shape=f"{name} ({len(chunks)} chunks, {len(data)} bytes)", symbolic=f"insert position over chunk boundaries {lo}..{hi} (segments cover all {len(offs)}), {ln} payload bytes", timeout=400))
        # between every pair of chunks at once
        body = f"""
    base = snap_any(load_bytes(DATA))
    out = []
    prev = 0
    k = 0
    for o in OFFS:
        out += list(DATA[prev:o]) + RF.ck(IDS[k % 4], [j0, k % 256][: k % 3])
        prev = o
        k += 1
    return same(base, snap_any(load_bytes(out)))
"""
        obs.append(Ob(f"unknown.all.{name}", build([U8("j0")], body, setup=SETUP + f"DATA = {data!r}\nOFFS = {offs!r}\nIDS = {UNKNOWN!r}\n"),
                      f"{name}: unknown chunks (4 ids, payload lengths 0/1/2) after EVERY chunk simultaneously change nothing", group="unknown", shape=f"{name} ({len(chunks)} chunks)",
                      symbolic="payload byte", timeout=240))
    return obs


def obligations(tier, seed):
    rnd = random.Random(seed)
    S = spec.load()
    return common_obs(tier, rnd, S) + cval_count_obs(tier, rnd, S) + optional_obs(tier, rnd) + slot_obs(tier, rnd) + legacy_obs() + nested_obs() + unknown_obs(tier, rnd)
