#!/venv/bin/python
# Replay of a solver counterexample against the real library: no CrossHair, no stubs, real io.BytesIO.
# property C11  obligation clamp.MetaModule.user_defined_controllers
# MetaModule.user_defined_controllers: any assigned integer is clamped into the declared [0, 96]
# exit 1 = the property fails for this input on the current /repo tree; exit 0 = it holds.
import os, sys
os.environ["VF_REPLAY"] = "1"
sys.path.insert(0, "/verif")
ARGS = (-1,)
KWARGS = {}
HARNESS = 'from vf.prelude import *\nfrom rv.modules import MODULE_CLASSES\nfrom vf import refformat as RF\n\n\ndef h(v: int) -> bool:\n    """\n    post: _\n    """\n    mod = MODULE_CLASSES[\'MetaModule\']()\n    mod.user_defined_controllers = v\n    got = mod.user_defined_controllers\n    if v < 0:\n        return got == 0\n    if v > 96:\n        return got == 96\n    return got == v\n\n\ndef h__reach(v: int) -> bool:\n    """\n    post: _\n    """\n    h(v)\n    return False\n'
ns = {"__name__": "vf_replay"}
exec(compile(HARNESS, "<harness clamp.MetaModule.user_defined_controllers>", "exec"), ns)
try:
    ok = ns['h'](*ARGS, **KWARGS)
except Exception as e:
    import traceback; traceback.print_exc()
    print("replay: raised", type(e).__name__, e)
    sys.exit(1)
print("replay: h(*%r, **%r) returned %r" % (ARGS, KWARGS, ok))
sys.exit(0 if ok else 1)
