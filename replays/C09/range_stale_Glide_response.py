#!/venv/bin/python
# Replay of a solver counterexample against the real library: no CrossHair, no stubs, real io.BytesIO.
# property C09  obligation range.stale.Glide.response
# Glide, controllers ['response', 'sample_rate', 'pitch', 'pitch_scale', 'octave', 'freq_multiply']: whatever integer w the module already stores (leniently stored values may be out of range), a strict assignment of v is accepted iff min <= v <= max, otherwise ControllerValueError and the stored value remains
# exit 1 = the property fails for this input on the current /repo tree; exit 0 = it holds.
import os, sys
os.environ["VF_REPLAY"] = "1"
sys.path.insert(0, "/verif")
ARGS = (0, 0)
KWARGS = {}
HARNESS = 'from vf.prelude import *\nfrom rv.modules import MODULE_CLASSES\nfrom rv.errors import ControllerValueError, override_raise_controller_value_errors\nCLS = MODULE_CLASSES[\'Glide\']\n\n\ndef h(w: int, v: int) -> bool:\n    """\n    post: _\n    """\n    mod = CLS()\n    with override_raise_controller_value_errors(False):\n        mod.response = w\n    before = mod.response\n    try:\n        mod.response = v\n    except ControllerValueError:\n        if 0 <= v <= 1000 or mod.response != before:\n            return False\n    else:\n        if not (0 <= v <= 1000) or mod.response != v:\n            return False\n    with override_raise_controller_value_errors(False):\n        mod.sample_rate = w\n    before = mod.sample_rate\n    try:\n        mod.sample_rate = v\n    except ControllerValueError:\n        if 1 <= v <= 32768 or mod.sample_rate != before:\n            return False\n    else:\n        if not (1 <= v <= 32768) or mod.sample_rate != v:\n            return False\n    with override_raise_controller_value_errors(False):\n        mod.pitch = w\n    before = mod.pitch\n    try:\n        mod.pitch = v\n    except ControllerValueError:\n        if -600 <= v <= 600 or mod.pitch != before:\n            return False\n    else:\n        if not (-600 <= v <= 600) or mod.pitch != v:\n            return False\n    with override_raise_controller_value_errors(False):\n        mod.pitch_scale = w\n    before = mod.pitch_scale\n    try:\n        mod.pitch_scale = v\n    except ControllerValueError:\n        if 0 <= v <= 200 or mod.pitch_scale != before:\n            return False\n    else:\n        if not (0 <= v <= 200) or mod.pitch_scale != v:\n            return False\n    with override_raise_controller_value_errors(False):\n        mod.octave = w\n    before = mod.octave\n    try:\n        mod.octave = v\n    except ControllerValueError:\n        if -10 <= v <= 10 or mod.octave != before:\n            return False\n    else:\n        if not (-10 <= v <= 10) or mod.octave != v:\n            return False\n    with override_raise_controller_value_errors(False):\n        mod.freq_multiply = w\n    before = mod.freq_multiply\n    try:\n        mod.freq_multiply = v\n    except ControllerValueError:\n        if 1 <= v <= 256 or mod.freq_multiply != before:\n            return False\n    else:\n        if not (1 <= v <= 256) or mod.freq_multiply != v:\n            return False\n    return True\n\n\ndef h__reach(w: int, v: int) -> bool:\n    """\n    post: _\n    """\n    h(w, v)\n    return False\n'
ns = {"__name__": "vf_replay"}
exec(compile(HARNESS, "<harness range.stale.Glide.response>", "exec"), ns)
try:
    ok = ns['h'](*ARGS, **KWARGS)
except Exception as e:
    import traceback; traceback.print_exc()
    print("replay: raised", type(e).__name__, e)
    sys.exit(1)
print("replay: h(*%r, **%r) returned %r" % (ARGS, KWARGS, ok))
sys.exit(0 if ok else 1)
