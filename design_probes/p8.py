import rv.api
from p7 import inv_ok, edges
from rv.api import Project, m

def hist(f1: int, t1: int, d1: bool, f2: int, t2: int, d2: bool) -> bool:
    """
    pre: 0 <= f1 < 3 and 0 <= t1 < 3 and 0 <= f2 < 3 and 0 <= t2 < 3
    post: _
    """
    p = Project()
    p.new_module(m.Amplifier); p.new_module(m.Amplifier)
    mods = p.modules
    want = set()
    for f, t, d in ((f1, t1, d1), (f2, t2, d2)):
        a, b = mods[f], mods[t]
        if d:
            p.connect(~a, b); want.discard((f, t))
        else:
            p.connect(a, b); want.add((f, t))
        if not inv_ok(mods) or edges(mods) != sorted(want):
            return False
    return True
