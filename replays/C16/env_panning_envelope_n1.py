#!/venv/bin/python
# Replay of a solver counterexample against the real library: no CrossHair, no stubs, real io.BytesIO.
# property C16  obligation env.panning_envelope.n1
# panning_envelope with 1 points: points, sustain/loop points and ctl/gain/velocity survive; the chunk (CHNM 0x103) is 0x14 + 4n bytes in the documented layout with y stored minus the range minimum
# exit 1 = the property fails for this input on the current /repo tree; exit 0 = it holds.
import os, sys
os.environ["VF_REPLAY"] = "1"
sys.path.insert(0, "/verif")
ARGS = (0, -1, 0, 0, 0, 0, 0, 0)
KWARGS = {}
HARNESS = 'from vf.prelude import *\nfrom rv.modules import MODULE_CLASSES\nfrom vf.invariants import *\nfrom vf import refformat as RF\nSMP = MODULE_CLASSES["Sampler"]\nSG = ("type", "payload")\n\n\ndef rt_sampler(s):\n    data = save_bytes(Synth(s))\n    t = load_bytes(data).module\n    return data, t\n\n\ndef rec_of(data, chnm):\n    ver, md = RF.decode_synth(data)\n    r = [c for c in md["chunks"] if c["chnm"] == chnm]\n    return r[0] if len(r) == 1 else None\n\n\ndef h(x0: int, y0: int, sus: int, lst: int, lend: int, ci: int, gain: int, vel: int) -> bool:\n    """\n    pre: (0 <= x0 <= 65535) and (-16384 <= y0 <= 49151) and (0 <= sus <= 255) and (0 <= lst <= 255) and (0 <= lend <= 255) and (0 <= ci <= 255)\n    pre: (0 <= gain <= 255) and (0 <= vel <= 255)\n    post: _\n    """\n    s = SMP()\n    e = s.panning_envelope\n    e.points = [(x0, y0)]\n    e.sustain_point = sus\n    e.loop_start_point = lst\n    e.loop_end_point = lend\n    e.ctl_index = ci\n    e.gain_pct = gain\n    e.velocity = vel\n    e.enable = False\n    e.sustain = False\n    e.loop = True\n    s1 = snap_sampler(s, "", groups=("envelopes",))\n    data, t = rt_sampler(s)\n    if not same(s1, snap_sampler(t, "", groups=("envelopes",))):\n        return False\n    c = rec_of(data, 259)["chdt"]\n    if len(c) != 0x14 + 4 * 1:\n        return False\n    ok = c[0] == (1 if e.enable else 0) + (2 if e.sustain else 0) + (4 if e.loop else 0) and c[1] == 0 and c[2] == ci and c[3] == gain and c[4] == vel\n    ok = ok and RF.rd_u16(c, 8) == 1 and RF.rd_u16(c, 0x0a) == sus and RF.rd_u16(c, 0x0c) == lst and RF.rd_u16(c, 0x0e) == lend\n    ok = ok and RF.rd_u16(c, 20) == x0 and RF.rd_u16(c, 22) == y0 - (-16384)\n\n    return ok\n\n\ndef h__reach(x0: int, y0: int, sus: int, lst: int, lend: int, ci: int, gain: int, vel: int) -> bool:\n    """\n    pre: (0 <= x0 <= 65535) and (-16384 <= y0 <= 49151) and (0 <= sus <= 255) and (0 <= lst <= 255) and (0 <= lend <= 255) and (0 <= ci <= 255)\n    pre: (0 <= gain <= 255) and (0 <= vel <= 255)\n    post: _\n    """\n    h(x0, y0, sus, lst, lend, ci, gain, vel)\n    return False\n'
ns = {"__name__": "vf_replay"}
exec(compile(HARNESS, "<harness env.panning_envelope.n1>", "exec"), ns)
try:
    ok = ns['h'](*ARGS, **KWARGS)
except Exception as e:
    import traceback; traceback.print_exc()
    print("replay: raised", type(e).__name__, e)
    sys.exit(1)
print("replay: h(*%r, **%r) returned %r" % (ARGS, KWARGS, ok))
sys.exit(0 if ok else 1)
