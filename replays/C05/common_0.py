#!/venv/bin/python
# Replay of a solver counterexample against the real library: no CrossHair, no stubs, real io.BytesIO.
# property C05  obligation common.0
# module header fields ['bank', 'prog', 'fin'] of a reference-encoded module: decoded, and a fixed point after one load/save cycle
# exit 1 = the property fails for this input on the current /repo tree; exit 0 = it holds.
import os, sys
os.environ["VF_REPLAY"] = "1"
sys.path.insert(0, "/verif")
ARGS = (1, 0, 0)
KWARGS = {}
HARNESS = 'from vf.prelude import *\nfrom rv.modules import MODULE_CLASSES\nfrom vf import refformat as RF\nfrom vf.invariants import *\n\n\ndef cycle(X):\n    """-> (ok, reason)   Y = save(load(X)); Y\' = save(load(Y)); purity of save"""\n    try:\n        a = load_bytes(X)\n    except Exception:\n        return True   # X is not loadable: outside the property (e.g. a stored enum value that is no member)\n    s0 = snap_any(a)\n    Y = save_bytes(a)\n    s1 = snap_any(a)\n    Y_again = save_bytes(a)\n    if not same(s0, s1) or Y != Y_again:\n        return False\n    b = load_bytes(Y)\n    Y2 = save_bytes(b)\n    return Y == Y2\n\n\ndef snap_any(o):\n    if hasattr(o, "modules"):\n        return snap_project(o)\n    return snap_module(o.module)\n\n\ndef h(bank: int, prog: int, fin: int) -> bool:\n    """\n    pre: (-2147483648 <= bank <= 2147483647) and (-2147483648 <= prog <= 2147483647) and (-2147483648 <= fin <= 2147483647)\n    post: _\n    """\n    X = RF.enc_project(modules=[RF.enc_output(), RF.enc_module("Amplifier", in_project=True, flags=0x51 | 0, midi_out_bank=bank, midi_out_program=prog,\n                       finetune=fin, relative_note=0, x=1, y=2, scale=256, midi_out_channel=0, midi_in=0)])\n    a = load_bytes(X)\n    m_ = a.modules[1]\n    if not (m_.midi_out_bank == bank and m_.midi_out_program == prog and m_.mod_finetune == fin and m_.mod_relative_note == 0\n            and m_.x == 1 and m_.y == 2 and m_.scale == 256 and m_.midi_out_channel == 0):\n        return False\n    return cycle(X)\n\n\ndef h__reach(bank: int, prog: int, fin: int) -> bool:\n    """\n    pre: (-2147483648 <= bank <= 2147483647) and (-2147483648 <= prog <= 2147483647) and (-2147483648 <= fin <= 2147483647)\n    post: _\n    """\n    h(bank, prog, fin)\n    return False\n'
ns = {"__name__": "vf_replay"}
exec(compile(HARNESS, "<harness common.0>", "exec"), ns)
try:
    ok = ns['h'](*ARGS, **KWARGS)
except Exception as e:
    import traceback; traceback.print_exc()
    print("replay: raised", type(e).__name__, e)
    sys.exit(1)
print("replay: h(*%r, **%r) returned %r" % (ARGS, KWARGS, ok))
sys.exit(0 if ok else 1)
