#!/venv/bin/python
# Replay of a solver counterexample against the real library: no CrossHair, no stubs, real io.BytesIO.
# property C10  obligation pv.range.1_240
# pattern-column encoding for range [1, 240] (used by 1 controllers, e.g. Loop.max_buffer_size): min -> 0, max -> 0x8000, inside [0, 0x8000], monotone; IEEE-754 double semantics
# exit 1 = the property fails for this input on the current /repo tree; exit 0 = it holds.
import os, sys
os.environ["VF_REPLAY"] = "1"
sys.path.insert(0, "/verif")
ARGS = ()
KWARGS = {'model': {'v': 240}}
HARNESS = 'from vf.prelude import *\nfrom rv.controller import Controller, Range, CompactRange\n\n\ndef h(model=None):\n    t = Range(1, 240)\n    c = Controller(t, 1)\n    v = model["v"]\n    a = c.pattern_value(None, v)\n    print("pattern_value(%d) = %d for range [1, 240]" % (v, a))\n    if "v2" in model:\n        b = c.pattern_value(None, model["v2"])\n        print("pattern_value(%d) = %d" % (model["v2"], b))\n        return not (v <= model["v2"] and a > b)\n    if False:\n        return a == v - 1\n    return not ((v == 1 and a != 0) or (v == 240 and a != 0x8000) or not (0 <= a <= 0x8000))\n'
ns = {"__name__": "vf_replay"}
exec(compile(HARNESS, "<harness pv.range.1_240>", "exec"), ns)
try:
    ok = ns['h'](*ARGS, **KWARGS)
except Exception as e:
    import traceback; traceback.print_exc()
    print("replay: raised", type(e).__name__, e)
    sys.exit(1)
print("replay: h(*%r, **%r) returned %r" % (ARGS, KWARGS, ok))
sys.exit(0 if ok else 1)
