#!/venv/bin/python
# Replay of a solver counterexample against the real library: no CrossHair, no stubs, real io.BytesIO.
# property C03  obligation meta.labels96.synth
# MetaModule with 96 user-defined controllers and labels on the first and the last two (synth): every module-specific chunk number, including the last label's 103, is below the declared CHNK count; the label chunks carry the text
# exit 1 = the property fails for this input on the current /repo tree; exit 0 = it holds.
import os, sys
os.environ["VF_REPLAY"] = "1"
sys.path.insert(0, "/verif")
ARGS = (65536, 262144)
KWARGS = {}
HARNESS = 'from vf.prelude import *\nfrom rv.modules import MODULE_CLASSES\nfrom vf.invariants import *\nfrom vf import refformat as RF\n\n\ndef order_ok(ids):\n    """module chunk ids appear in the documented order (CHNM/CHDT/CHFF/CHFR groups after CHNK)"""\n    last = -1\n    for cid in ids:\n        c = cid.decode()\n        if c in ("CHNM", "CHDT", "CHFF", "CHFR"):\n            if "CHNK" not in [x.decode() for x in ids]:\n                return False\n            continue\n        if c not in RF.MODULE_ORDER:\n            return False\n        i = RF.MODULE_ORDER.index(c)\n        if i < last:\n            return False\n        last = i\n    return True\n\n\ndef h(c1: int, c2: int) -> bool:\n    """\n    pre: ((1 <= c1 <= 0xD7FF or 0xE000 <= c1 <= 0x10FFFF)) and ((1 <= c2 <= 0xD7FF or 0xE000 <= c2 <= 0x10FFFF))\n    post: _\n    """\n    mod = MODULE_CLASSES[\'MetaModule\']()\n    mod.user_defined_controllers = 96\n    mod.user_defined[0].label = \'first\'\n    mod.user_defined[94].label = \'L\' + chr(c1)\n    mod.user_defined[95].label = \'last\' + chr(c2)\n    data = save_bytes(Synth(mod))\n    ver, d = RF.decode_synth(data)\n    nums = [c_[\'chnm\'] for c_ in d[\'chunks\']]\n    if d[\'chnk\'] is None or not all(n_ < d[\'chnk\'] for n_ in nums) or any(c_[\'chdt\'] is None for c_ in d[\'chunks\']):\n        return False\n    lab = dict((c_[\'chnm\'], bytes(c_[\'chdt\'])) for c_ in d[\'chunks\'] if c_[\'chnm\'] >= 8)\n    return sorted(lab) == [8, 102, 103] and lab[103].rstrip(b"\\0") == (\'last\' + chr(c2)).encode("utf8") and len(d[\'cvals\']) == 5 + 96\n\n\ndef h__reach(c1: int, c2: int) -> bool:\n    """\n    pre: ((1 <= c1 <= 0xD7FF or 0xE000 <= c1 <= 0x10FFFF)) and ((1 <= c2 <= 0xD7FF or 0xE000 <= c2 <= 0x10FFFF))\n    post: _\n    """\n    h(c1, c2)\n    return False\n'
ns = {"__name__": "vf_replay"}
exec(compile(HARNESS, "<harness meta.labels96.synth>", "exec"), ns)
try:
    ok = ns['h'](*ARGS, **KWARGS)
except Exception as e:
    import traceback; traceback.print_exc()
    print("replay: raised", type(e).__name__, e)
    sys.exit(1)
print("replay: h(*%r, **%r) returned %r" % (ARGS, KWARGS, ok))
sys.exit(0 if ok else 1)
