"""C10 — stored controller encodings are exact bijections on each controller's range; pattern-column encoding."""
import random

from vf import modgen
from vf.harness import B, INT, R, Ob, build
from vf.modgen import cls_expr, ctl_kind

EXPLANATION = (
    "C10: (S) for every controller of every type a symbolic v over the controller's whole declared range goes through the real "
    "Module.get_raw and, on a fresh module, Module.set_raw; a left inverse on the whole range is injectivity.  One generic harness has "
    "(min, max, v) all symbolic on Range/CompactRange/NoOffsetRange and so covers every range that could be declared.  "
    "(F) Controller.pattern_value is translated from its AST to QF_BVFP (IEEE-754 double, RNE, truncation) and decided by z3 and cvc5 for "
    "every distinct (min, max) pair found in the live metadata."
)
BOUNDS = {"quick": {"S": "all 43 types, every range controller over its full range, every unit member of unit-dependent ranges; enum members and booleans enumerated (concrete)",
                    "F": "every distinct (min,max) of the live metadata, v over the whole range; obligations: pv(min)=0, pv(max)=0x8000, 0<=pv<=0x8000, pv(v)<=pv(v+1)"},
          "thorough": {"S": "as quick", "F": "as quick, both solvers required to answer on every pair"}}
OUTSIDE = ["MetaModule user-defined controllers mapped onto enum / boolean targets (values: C15)"]
ASSUMPTIONS = ["integers in the float kernel stay below 2^53 (asserted as a side obligation of every query, not assumed)"]

SETUP = "from rv.modules import MODULE_CLASSES\nfrom rv.controller import Range, CompactRange, NoOffsetRange, WarnOnlyRange\n"


def s_obligations(tier, rnd):
    from rv.modules import MODULE_CLASSES
    obs = []
    for mt, cls in MODULE_CLASSES.items():
        items = [(n, c) for n, c in cls.controllers.items() if not n.startswith("user_defined_")]
        ranges = [(n, c) for n, c in items if ctl_kind(c) in ("range", "compact", "nooffset", "warnonly")]
        for ci in range(0, len(ranges), 30):
            chunk = ranges[ci:ci + 30]
            params, parts = [], []
            for n, c in chunk:
                t = c.value_type
                k = ctl_kind(c)
                params.append(R("v_" + n, t.min, t.max))
                exp = f"v_{n}" if (k == "nooffset" or t.min >= 0) else f"v_{n} - ({t.min})"
                nonneg = "" if k == "nooffset" else f" or raw < 0"
                parts.append(f"""
    a.{n} = v_{n}
    raw = a.get_raw({n!r})
    if raw != {exp}{nonneg}:
        return False
    b.set_raw({n!r}, raw)
    if b.{n} != v_{n}:
        return False""")
            body = "    a = CLS()\n    b = CLS()" + "".join(parts) + "\n    return True\n"
            obs.append(Ob(f"raw.{mt}.{ci // 30}", build(params, body, setup=SETUP + f"CLS = {cls_expr(mt)}\n"),
                          f"{mt}: for every value of every range controller, get_raw gives v - min (min < 0) or v, never negative, and set_raw on a fresh module gives v back",
                          group="raw", shape=f"{mt}: {len(chunk)} range controllers", symbolic="one value per controller over its whole declared range", timeout=180))
        deps = [(n, c) for n, c in items if ctl_kind(c) == "dep"]
        if deps:
            params, parts = [], []
            for n, c in deps:
                t = c.value_type
                for unit, r in t.range_map.items():
                    p = f"v_{n}_{unit.name}"
                    params.append(R(p, r.min, r.max))
                    exp = p if r.min >= 0 else f"{p} - ({r.min})"
                    parts.append(f"""
    a = CLS()
    b = CLS()
    U = CLS.controllers[{t.ctl_name!r}].value_type({unit.value})
    a.{t.ctl_name} = U
    b.{t.ctl_name} = U
    a.{n} = {p}
    raw = a.get_raw({n!r})
    if raw != {exp} or raw < 0:
        return False
    b.set_raw({n!r}, raw)
    if b.{n} != {p}:
        return False""")
            body = "".join(parts)[1:] + "\n    return True\n"
            obs.append(Ob(f"raw.dep.{mt}", build(params, body, setup=SETUP + f"CLS = {cls_expr(mt)}\n"),
                          f"{mt}: unit-dependent controllers under every unit: stored value is v - min (min < 0) or v and converts back to v",
                          group="raw", shape=f"{mt}: {len(deps)} unit-dependent controllers x every unit", symbolic="one value per (controller, unit) over that unit's range", timeout=240))
    # unit-dependent ranges after a LOAD (the unit arrives as a stored value): the range the library resolves, and hence the
    # pattern-column encoding of the end points, must be the unit's
    for mt, cls in MODULE_CLASSES.items():
        deps = [(n, c) for n, c in cls.controllers.items() if ctl_kind(c) == "dep"]
        for n, c in deps:
            t = c.value_type
            params, parts = [], []
            for unit, r in t.range_map.items():
                pn = f"v_{unit.name}"
                params.append(R(pn, r.min, r.max))
                parts.append(f"""
    a = CLS()
    a.{t.ctl_name} = CLS.controllers[{t.ctl_name!r}].value_type({unit.value})
    a.{n} = {pn}
    for b in (rt(Synth(a)).module, a.clone()):
        rr = CLS.controllers[{n!r}].instance_value_type(b)
        if (rr.min, rr.max) != ({r.min}, {r.max}) or b.{n} != {pn} or b.{t.ctl_name}.value != {unit.value}:
            return False
        if CLS.controllers[{n!r}].pattern_value(b, {r.min}) != 0 or CLS.controllers[{n!r}].pattern_value(b, {r.max}) != 0x8000:
            return False""")
            body = "".join(parts)[1:] + "\n    return True\n"
            obs.append(Ob(f"dep.loaded.{mt}.{n}", build(params, body, setup=SETUP + f"CLS = {cls_expr(mt)}\n"),
                          f"{mt}.{n} after save/load and after clone(), under every unit: the resolved range is the unit's and its end points encode to 0x0000 / 0x8000",
                          group="raw", shape=f"{mt}: every member of {t.ctl_name}", symbolic="the controller value under each unit", timeout=300))
    # MetaModule user-defined controllers adopt the range of the controller they are mapped to ("for every controller"): the stored
    # encoding and the pattern-column end points must be those of the ADOPTED range, before and after a load
    from vf.props import c15
    p15, l15 = c15.build_mm(0, rnd)
    tg = [("user_defined_1", (1, 0), 0, 1024), ("user_defined_2", (1, 1), -128, 128), ("user_defined_3", (3, 0), -128, 128), ("user_defined_4", (1, 8), -16384, 16384)]
    lines = list(l15) + ["mm.user_defined_controllers = 4"] + [f"mm.mappings.values[{i}] = MM.Mapping({m!r})" for i, (n_, m, lo, hi) in enumerate(tg)] + ["mm.update_user_defined_controllers()"]
    code = "\n".join("    " + l for l in lines)
    chk = ""
    for n_, m, lo, hi in tg:
        raw = f"v_{n_}" if lo >= 0 else f"v_{n_} - ({lo})"
        chk += f"""
        raw = {raw}
        b.set_raw({n_!r}, raw)
        if b.{n_} != v_{n_} or b.get_raw({n_!r}) != raw or raw < 0:
            return False
        c_ = MM.controllers[{n_!r}]
        t_ = c_.instance_value_type(b)
        if (t_.min, t_.max) != ({lo}, {hi}) or c_.pattern_value(b, {lo}) != 0 or c_.pattern_value(b, {hi}) != {(hi - lo) if m == (3, 0) else 0x8000}:
            return False"""
    body = f"""
{code}
    for b in (mm, rt(Synth(mm)).module):{chk}
    m3 = rt(Synth(mm)).module
    return all(getattr(m3, n_) == getattr(mm, n_) for n_ in ("user_defined_1", "user_defined_2", "user_defined_3", "user_defined_4"))
"""
    obs.append(Ob("raw.userdefined", build(p15 + [R(f"v_{n_}", lo, hi) for n_, m, lo, hi in tg], body, setup=SETUP + c15.SETUP.split("from vf import refformat as RF")[1]),
                  "MetaModule user-defined controllers mapped onto ranged targets: stored value is v - min (min < 0) or v, never negative, converts back to v, the resolved range is the target's and its end points encode to 0x0000 / 0x8000 (compact target: 0 / max - min) -- on the built module and after save/load",
                  group="raw", shape="MetaModule n=4: -> Amplifier.volume, Amplifier.balance, MultiSynth.transpose, Amplifier.bipolar_dc_offset", symbolic="one value per user-defined controller over the adopted range", timeout=400))
    # generic: any range that could ever be declared
    for kind, off in (("Range", True), ("CompactRange", True), ("WarnOnlyRange", True), ("NoOffsetRange", False)):
        exp = "(v - mn if mn < 0 else v)" if off else "v"
        body = f"""
    r = {kind}(mn, mx)
    raw = r.to_raw_value(v)
    if raw != {exp}:
        return False
    if {'raw < 0' if off else 'False'}:
        return False
    return r.from_raw_value(raw) == v and r(v) == v
"""
        obs.append(Ob(f"raw.generic.{kind}", build([INT("mn"), INT("mx"), INT("v")], body, setup=SETUP, extra_pre=["mn <= v <= mx"]),
                      f"{kind}(min, max) for ANY bounds: to_raw_value/from_raw_value are mutually inverse on [min, max], stored value is " + ("v - min when min < 0 (so never negative), else v" if off else "v itself"),
                      group="raw", shape=f"{kind} with symbolic bounds", symbolic="min, max, v over all integers with min <= v <= max", timeout=120))
    # enums and booleans: finite, enumerated (concrete side-condition)
    src = "from vf.prelude import *\n" + SETUP + '''from enum import Enum


def h():
    for mt, cls in MODULE_CLASSES.items():
        for n, c in cls.controllers.items():
            t = c.value_type
            if isinstance(t, type) and issubclass(t, Enum):
                seen = set()
                for mem in t:
                    a, b = cls(), cls()
                    setattr(a, n, mem)
                    raw = a.get_raw(n)
                    if raw != mem.value or raw in seen:
                        print(mt, n, mem, raw)
                        return False
                    seen.add(raw)
                    b.set_raw(n, raw)
                    if getattr(b, n) is not mem:
                        print(mt, n, mem, getattr(b, n))
                        return False
            elif t is bool:
                for v in (False, True):
                    a, b = cls(), cls()
                    setattr(a, n, v)
                    raw = a.get_raw(n)
                    if raw != int(v):
                        return False
                    b.set_raw(n, raw)
                    if getattr(b, n) is not v:
                        print(mt, n, v, getattr(b, n))
                        return False
    return True
'''
    obs.append(Ob("raw.enum_bool", src, "every enum member and both booleans of every controller: stored value is the member value / 0,1, distinct members never collide, and it converts back to the same member",
                  engine="C", group="raw", shape="all enum and boolean controllers (finite, enumerated completely)"))
    return obs


def obligations(tier, seed):
    rnd = random.Random(seed)
    obs = s_obligations(tier, rnd)
    try:
        from vf import fpengine
        obs += fpengine.pattern_value_obligations(tier, rnd)
    except ImportError:
        pass
    return obs
