"""C05 — re-saving is stable: load/save is idempotent and saving is pure."""
import glob
import os
import random

from vf import spec
from vf.harness import B, I32, R, U8, U16, U32, Ob, build

EXPLANATION = (
    "C05: X is produced by the independent reference encoder (or is a shipped fixture re-emitted chunk by chunk) with stored controller words, option bytes, "
    "header integers, link entries and note bytes SYMBOLIC -- controller words over the whole 32-bit range, i.e. including values outside the ranges the "
    "library knows.  Y = save(load(X)), Y' = save(load(Y)) through the real reader/writer; Y == Y' as byte strings is asserted.  save-after-load is a "
    "deterministic function of the bytes, so Y' == Y for all X gives stability for every number n >= 1 of cycles.  Purity: the snapshot of the loaded "
    "object before and after write_to, and two consecutive write_to results, are compared in the same harness; purity.built does the same for a project built "
    "through the API (states no loaded file shows, e.g. a trailing freed link slot)."
)
BOUNDS = {"quick": {"controller words": "2 symbolic 32-bit words per obligation (the other stored values seeded in range), one obligation per controller pair of 6 seeded types + every negative-minimum controller kind; 6 seeded fixtures with 2 CVALs replaced",
                    "options": "every byte of the options record symbolic (5 types)", "header": "all u32/i32 project fields", "links/notes": "as C08 reference files / C12 cells", "purity on built objects": "Project[Output, 3 modules, pattern] built through the API with one link freed at a symbolic place; raw link lists compared"},
          "thorough": {"controller words": "every controller of every type (pairs), all fixtures <= 3 KB", "options": "as quick", "header": "as quick"}}
OUTSIDE = ["stored enum values that are not members: the load raises ValueError, so there is no Y (reported under C04's notes)", "more than 2 out-of-range controller words in one file at once"]
ASSUMPTIONS = ["X is loadable (an X on which the load raises is outside the property)"]

SETUP = '''from rv.modules import MODULE_CLASSES
from vf import refformat as RF
from vf.invariants import *


def cycle(X):
    """-> (ok, reason)   Y = save(load(X)); Y' = save(load(Y)); purity of save"""
    try:
        a = load_bytes(X)
    except Exception:
        return True   # X is not loadable: outside the property (e.g. a stored enum value that is no member)
    s0 = snap_any(a)
    Y = save_bytes(a)
    s1 = snap_any(a)
    Y_again = save_bytes(a)
    if not same(s0, s1) or Y != Y_again:
        return False
    b = load_bytes(Y)
    Y2 = save_bytes(b)
    return Y == Y2


def snap_any(o):
    if hasattr(o, "modules"):
        return snap_project(o)
    return snap_module(o.module)
'''


def cval_obs(tier, rnd):
    S = spec.load()
    obs = []
    types = [mt for mt, sp in S.items() if any(c["attached"] for c in sp["controllers"]) and mt not in ("MetaModule", "Sampler")]
    if tier == "quick":
        neg = [mt for mt in types if any(c["kind"] in ("range", "compact", "nooffset") and c["min"] < 0 for c in S[mt]["controllers"])]
        pick = sorted(set(rnd.sample(neg, 4) + rnd.sample(types, 3) + ["Amplifier", "MultiSynth", "Vorbis player"]))
    else:
        pick = types
    for mt in pick:
        sp = S[mt]
        att = [c for c in sp["controllers"] if c["attached"]]
        # default stored values (in range)
        defaults = []
        for c in att:
            if c["kind"] in ("range", "compact", "nooffset"):
                d = c["default"]
                defaults.append(d - c["min"] if (c["min"] < 0 and c["kind"] != "nooffset") else max(d, 0))
            elif c["kind"] == "enum":
                defaults.append(c["members"][c["default"]])
            elif c["kind"] == "bool":
                defaults.append(1 if c["default"] else 0)
            elif c["kind"] == "dep":
                defaults.append(c["default"])
            else:
                defaults.append(0)
        idx = [i for i, c in enumerate(att) if c["kind"] in ("range", "compact", "nooffset", "dep", "bool")]
        if tier == "quick":
            negi = [i for i in idx if att[i]["kind"] in ("range", "compact", "nooffset") and att[i]["min"] < 0]
            pairs = []
            pool = negi + [i for i in idx if i not in negi]
            for k in range(0, min(len(pool), 4), 2):
                pairs.append(pool[k:k + 2])
        else:
            pairs = [idx[k:k + 2] for k in range(0, len(idx), 2)]
        for pi, pr in enumerate(pairs):
            params = [U32(f"w{i}") for i in pr]
            cv = [f"w{i}" if i in pr else str(d) for i, d in enumerate(defaults)]
            extra = ""
            if mt == "Sampler":
                extra = ", chunks=[(0, RF.sampler_record())], chnk=0x10B"
            body = f"""
    X = RF.enc_synth({mt!r}, flags={sp['flags']}, cvals=[{', '.join(cv)}]{extra})
    return cycle(X)
"""
            obs.append(Ob(f"cval.{mt}.{pi}", build(params, body, setup=SETUP),
                          f"{mt}: with the stored words of controllers {[att[i]['name'] for i in pr]} arbitrary 32-bit values (in or out of range), load/save reaches a fixed point after one cycle and saving is pure",
                          group="cval", shape=f"REF-ENC synth({mt}); other stored values at their defaults", symbolic="2 stored controller words over 0..2^32-1", timeout=240))
    return obs


def fixture_obs(tier, rnd):
    from vf import refformat as RF
    obs = []
    files = sorted(glob.glob("/repo/tests/files/*.sunsynth") + glob.glob("/repo/tests/files/*.sunvox"))
    files = [f for f in files if os.path.getsize(f) <= 3000]
    pick = rnd.sample([f for f in files if os.path.getsize(f) <= 900], 6) if tier == "quick" else files
    for path in pick:
        data = open(path, "rb").read()
        chunks = RF.walk(data)
        cv = [i for i, (cid, pl) in enumerate(chunks) if cid == b"CVAL"]
        if len(cv) < 1:
            continue
        sel = sorted(rnd.sample(cv, min(2, len(cv))))
        name = os.path.basename(path).replace(".", "_").replace("-", "_")
        parts = []
        last = 0
        for j, i in enumerate(sel):
            seg = RF.cat(RF.ck(c, p) for c, p in chunks[last:i])
            parts.append(f"{bytes(seg)!r}")
            parts.append(f"bytes(RF.ck(b'CVAL', RF.u32(w{cv.index(i)})))")
            last = i + 1
        parts.append(f"{bytes(RF.cat(RF.ck(c, p) for c, p in chunks[last:]))!r}")
        body = f"""
    X = {' + '.join(parts)}
    return cycle(X)
"""
        # parameters are named after the ordinal of the CVAL they replace (w3 = 4th stored controller value)
        obs.append(Ob(f"fixture.{name}", build([U32(f"w{cv.index(i)}") for i in sel], body, setup=SETUP),
                      f"{os.path.basename(path)} with CVAL chunks #{sel} replaced by arbitrary 32-bit words: fixed point after one load/save cycle, saving is pure",
                      group="fixture", shape=f"{os.path.basename(path)} re-emitted chunk by chunk", symbolic=f"{len(sel)} stored controller words over 0..2^32-1", timeout=300 if tier == "quick" else 900))
    return obs


def other_obs(tier, rnd):
    S = spec.load()
    obs = []
    # options records: every byte symbolic
    for mt, sp in S.items():
        if not sp["options"] or mt == "MetaModule":
            continue
        n = max(o["byte"] for o in sp["options"]) + 1
        multi = {o["byte"] for o in sp["options"] if sum(1 for q in sp["options"] if q["byte"] == o["byte"]) > 1}
        groups, cur = [], []
        for i in range(n):
            if i in multi:
                if cur:
                    groups.append(cur)
                    cur = []
                groups.append([i])
            else:
                cur.append(i)
                if len(cur) == 3:
                    groups.append(cur)
                    cur = []
        if cur:
            groups.append(cur)
        for bs in groups:
            lo = bs[0]
            extra = "[(0, RF.sampler_record())] + " if mt == "Sampler" else ""
            body = f"""
    rec = [{', '.join(f'b{i}' if i in bs else '0' for i in range(n))}]
    X = RF.enc_synth({mt!r}, flags={sp['flags']}, chunks={extra}[({sp['options_chnm']}, rec)], chnk={0x10B if mt == 'Sampler' else 4})
    return cycle(X)
"""
            obs.append(Ob(f"options.{mt}.{lo}", build([U8(f"b{i}") for i in bs], body, setup=SETUP), f"{mt}: arbitrary bytes {bs} in the options record (including bits no option uses): fixed point after one cycle",
                          group="options", shape=f"REF-ENC synth({mt}) with a {n}-byte options record", symbolic=f"{len(bs)} record bytes over 0..255", timeout=240))
    # common module header fields (MIDI-out bank/program, finetune, ...) of a reference-encoded module
    for gi, grp in enumerate((["bank", "prog", "fin"], ["rel", "x", "y"], ["sc", "moc", "mii", "fl"])):
        params = [(I32(n) if n in ("bank", "prog", "fin", "rel", "x", "y") else U32(n)) for n in grp]
        v = lambda n, d: n if n in grp else str(d)
        body = f"""
    X = RF.enc_project(modules=[RF.enc_output(), RF.enc_module("Amplifier", in_project=True, flags=0x51 | {v('fl', 0)}, midi_out_bank={v('bank', -1)}, midi_out_program={v('prog', -1)},
                       finetune={v('fin', 0)}, relative_note={v('rel', 0)}, x={v('x', 1)}, y={v('y', 2)}, scale={v('sc', 256)}, midi_out_channel={v('moc', 0)}, midi_in={v('mii', 0)})])
    a = load_bytes(X)
    m_ = a.modules[1]
    if not (m_.midi_out_bank == {v('bank', -1)} and m_.midi_out_program == {v('prog', -1)} and m_.mod_finetune == {v('fin', 0)} and m_.mod_relative_note == {v('rel', 0)}
            and m_.x == {v('x', 1)} and m_.y == {v('y', 2)} and m_.scale == {v('sc', 256)} and m_.midi_out_channel == {v('moc', 0)}):
        return False
    return cycle(X)
"""
        obs.append(Ob(f"common.{gi}", build(params, body, setup=SETUP), f"module header fields {grp} of a reference-encoded module: decoded, and a fixed point after one load/save cycle", group="common",
                      shape="REF-ENC project Output + Amplifier", symbolic=", ".join(grp) + " at their widths", timeout=300))
    # project header
    for gname, fields in (("u", [f for f in ("flags", "initial_bpm", "initial_tpl", "time_grid", "time_grid2", "global_volume", "modules_scale", "modules_zoom", "modules_layer_mask",
                                             "modules_current_layer", "selected_module", "current_pattern", "current_track", "current_line", "sync")]),
                          ("s", ["modules_x_offset", "modules_y_offset", "selected_generator"]), ("t", ["timeline_position", "restart_position"])):
        params = [(U32(f) if gname == "u" else I32(f)) for f in fields]
        body = f"""
    X = RF.enc_project(header=RF.enc_project_header({', '.join(f'{f}={f}' for f in fields)}), modules=[RF.enc_output()])
    return cycle(X)
"""
        obs.append(Ob(f"header.{gname}", build(params, body, setup=SETUP), "project header integers over their full widths: fixed point after one cycle (optional TIME/REPS chunks included)",
                      group="header", shape="REF-ENC project with only the Output module", symbolic=", ".join(fields), timeout=240))
    # notes
    from vf.props.c12 import _notecmd_pre
    body = """
    cells = [RF.enc_note(n, v0, m0, c0, w0), RF.enc_note(1, v1, m1, c1, w1)]
    X = RF.enc_project(patterns=[RF.enc_pattern(cells, tracks=2, lines=1), None, RF.enc_clone(0)], modules=[RF.enc_output()])
    return cycle(X)
"""
    obs.append(Ob("notes", build([("n", "int", _notecmd_pre("n")), R("v0", 0, 129), U16("m0"), U16("c0"), U16("w0"), R("v1", 0, 129), U16("m1"), U16("c1"), U16("w1")], body, setup=SETUP),
                  "pattern cells with arbitrary in-domain bytes (one note command over all members), an empty pattern slot and a clone: fixed point after one cycle", group="notes",
                  shape="REF-ENC project: pattern 1x2, empty, clone", symbolic="note command, velocities, 16-bit fields", timeout=300))
    # links: fan-in with a freed slot in the middle and explicit slots
    body = """
    L0 = [a, -1, b]
    mods = [RF.enc_output(links=L0), RF.enc_module("Amplifier", flags=0x51, in_project=True, links=[c]), RF.enc_module("Amplifier", flags=0x51, in_project=True)]
    X = RF.enc_project(modules=mods)
    return cycle(X)
"""
    obs.append(Ob("links", build([R("a", 1, 2), R("b", 1, 2), R("c", -1, 2)], body, setup=SETUP, extra_pre=["a != b", "c != 1"]),
                  "link tables with a freed slot in the middle and no explicit slot chunk: fixed point after one cycle", group="links",
                  shape="REF-ENC project Output + 2 modules", symbolic="link entries", timeout=240))
    # purity of save on objects BUILT through the API (states no loaded file shows, e.g. a freed trailing link slot)
    body = """
    p = Project()
    m_ = __import__("rv.api").api.m
    a = p.new_module(m_.Amplifier, volume=v)
    b = p.new_module(m_.Generator)
    c = p.new_module(m_.Amplifier)
    a >> c
    b >> c
    c >> p.output
    for i_, mod_ in ((1, a), (2, b)):
        if drop == i_:
            c << ~mod_
    if drop == 3:
        p.output << ~c
    pat = Pattern(lines=2, tracks=1)
    p.attach_pattern(pat)
    pat.data[1][0].vel = nv
    raw = lambda: [(list(x.in_links), list(x.in_link_slots), list(x.out_links), list(x.out_link_slots)) for x in p.modules]
    s0, r0 = snap_project(p), raw()
    y0 = save_bytes(p)
    s1, r1 = snap_project(p), raw()
    y1 = save_bytes(p)
    return same(s0, s1) and r0 == r1 and y0 == y1 and same(s0, snap_project(p)) and raw() == r0
"""
    obs.append(Ob("purity.built", build([R("drop", 0, 3), R("v", 0, 1024), R("nv", 0, 129)], body, setup=SETUP),
                  "saving a project built through the API (fan-in, one link removed at a symbolic place: first, last = trailing freed slot, the output's, or none) leaves every observable field incl. all four link tables as it was; two saves give identical bytes",
                  group="links", shape="Project[Output, Amplifier, Generator, Amplifier] with a 2x1 pattern", symbolic="which link is disconnected, a controller value, a velocity", timeout=240))
    return obs


def metamodule_obs(tier, rnd):
    """MetaModule files: user-defined controllers mapped onto every controller kind (incl. negative-minimum ranges), stored words symbolic"""
    from vf.props import c15
    obs = []
    for n in ((3,) if tier == "quick" else (1, 3, 7)):
        params, lines = c15.build_mm(n, rnd)
        code = "\n".join("    " + l for l in lines)
        for ctx in ("synth", "project"):
            wrap = "X = save_bytes(Synth(mm))" if ctx == "synth" else "p = Project()\n    p.attach_module(mm)\n    X = save_bytes(p)"
            body = f"""
{code}
    {wrap}
    return cycle(X)
"""
            obs.append(Ob(f"metamodule.{ctx}.n{n}", build(params, body, setup=SETUP + c15.SETUP.split("from vf import refformat as RF")[1]),
                          f"a MetaModule {ctx} with {n} user-defined controllers mapped onto range / negative-minimum / boolean / enum / compact targets: fixed point after one load/save cycle",
                          group="metamodule", shape=f"{ctx}; API-built MetaModule, n={n}", symbolic="embedded controller values (hence the stored user-defined words), embedded header", timeout=600))
    return obs


def obligations(tier, seed):
    rnd = random.Random(seed)
    return cval_obs(tier, rnd) + fixture_obs(tier, rnd) + other_obs(tier, rnd) + metamodule_obs(tier, rnd)
