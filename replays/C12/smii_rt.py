#!/venv/bin/python
# Replay of a solver counterexample against the real library: no CrossHair, no stubs, real io.BytesIO.
# property C12  obligation smii.rt
# MIDI-in mode and channel pack into SMII and come back independently (project and synth files)
# exit 1 = the property fails for this input on the current /repo tree; exit 0 = it holds.
import os, sys
os.environ["VF_REPLAY"] = "1"
sys.path.insert(0, "/verif")
ARGS = (False, 16, False, 0)
KWARGS = {}
HARNESS = 'from vf.prelude import *\n\n\ndef h(always: bool, chan: int, always2: bool, chan2: int) -> bool:\n    """\n    pre: (0 <= chan <= 2147483647) and (0 <= chan2 <= 2147483647)\n    post: _\n    """\n    proj = Project()\n    a = proj.new_module(m.Amplifier, midi_in_always=always, midi_in_channel=chan)\n    q = rt(proj)\n    b = q.modules[1]\n    if not (b.midi_in_always == always and b.midi_in_channel == chan):\n        return False\n    # set one sub-field on the loaded module, the other must stay\n    b.midi_in_always = always2\n    c = rt(q).modules[1]\n    if not (c.midi_in_always == always2 and c.midi_in_channel == chan):\n        return False\n    c.midi_in_channel = chan2\n    d = rt(Synth(c)).module\n    return d.midi_in_always == always2 and d.midi_in_channel == chan2\n\n\ndef h__reach(always: bool, chan: int, always2: bool, chan2: int) -> bool:\n    """\n    pre: (0 <= chan <= 2147483647) and (0 <= chan2 <= 2147483647)\n    post: _\n    """\n    h(always, chan, always2, chan2)\n    return False\n'
ns = {"__name__": "vf_replay"}
exec(compile(HARNESS, "<harness smii.rt>", "exec"), ns)
try:
    ok = ns['h'](*ARGS, **KWARGS)
except Exception as e:
    import traceback; traceback.print_exc()
    print("replay: raised", type(e).__name__, e)
    sys.exit(1)
print("replay: h(*%r, **%r) returned %r" % (ARGS, KWARGS, ok))
sys.exit(0 if ok else 1)
