import rv.api
import chplug
from rv.api import Project, read_sunvox_file, m
from rv.note import Note
from symio import PyFile

def ctl_setter(ctl: int, c: int) -> bool:
    """
    pre: 0 <= ctl <= 0xFFFF and 0 <= c <= 255
    post: _
    """
    n = Note(ctl=ctl)
    eff = n.effect
    n.controller = c
    return n.controller == c and n.effect == eff

def sfgs_rt(a: int, b: int) -> bool:
    """
    pre: 0 <= a <= 7 and 0 <= b <= 7
    post: _
    """
    p = Project()
    p.receive_sync_midi = a
    p.receive_sync_other = b
    f = PyFile()
    p.write_to(f)
    f.seek(0)
    q = read_sunvox_file(f)
    return q.receive_sync_midi == a and q.receive_sync_other == b
