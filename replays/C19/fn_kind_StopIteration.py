#!/venv/bin/python
# Replay of a solver counterexample against the real library: no CrossHair, no stubs, real io.BytesIO.
# property C19  obligation fn.kind.StopIteration
# set_via_fn with a callable failing by StopIteration at any cell: the exception reaches the caller and the pattern is unchanged
# exit 1 = the property fails for this input on the current /repo tree; exit 0 = it holds.
import os, sys
os.environ["VF_REPLAY"] = "1"
sys.path.insert(0, "/verif")
ARGS = (2, 0, 0)
KWARGS = {}
HARNESS = 'from vf.prelude import *\nfrom rv.errors import PatternOwnershipError\n\n\nclass Boom(Exception):\n    pass\n\n\ndef h(c: int, v0: int, nv: int) -> bool:\n    """\n    pre: (0 <= c <= 4) and (0 <= v0 <= 129) and (0 <= nv <= 129)\n    post: _\n    """\n    pat = Pattern(lines=2, tracks=2)\n    pat.data[1][0].vel = v0\n    before = pat.raw_data\n    objs = [n for line in pat.data for n in line]\n    def fn(p_, line, track):\n        if line * 2 + track == c:\n            raise StopIteration()\n        return Note(vel=nv)\n    try:\n        pat.set_via_fn(fn)\n    except StopIteration:\n        now = [n for line in pat.data for n in line]\n        return c < 4 and pat.raw_data == before and all(a is b for a, b in zip(now, objs))\n    return c >= 4 and all(n.vel == nv and n.pattern is pat for line in pat.data for n in line)\n\n\ndef h__reach(c: int, v0: int, nv: int) -> bool:\n    """\n    pre: (0 <= c <= 4) and (0 <= v0 <= 129) and (0 <= nv <= 129)\n    post: _\n    """\n    h(c, v0, nv)\n    return False\n'
ns = {"__name__": "vf_replay"}
exec(compile(HARNESS, "<harness fn.kind.StopIteration>", "exec"), ns)
try:
    ok = ns['h'](*ARGS, **KWARGS)
except Exception as e:
    import traceback; traceback.print_exc()
    print("replay: raised", type(e).__name__, e)
    sys.exit(1)
print("replay: h(*%r, **%r) returned %r" % (ARGS, KWARGS, ok))
sys.exit(0 if ok else 1)
