"""Validation of the hand-written bit-operation model in vf/chplug.py against Python's own
int.__or__/__xor__/__and__ on concrete vectors (edge cases + seeded random), by solving the model's
constraints with z3 for concrete operands.  Run by ./check before any obligation."""
import operator as ops
import random

import z3


class _FakeSpace:
    def __init__(self):
        self.s = z3.Solver()
        self.n = 0

    def add(self, e):
        self.s.add(e)

    def uniq(self):
        self.n += 1
        return "_%x" % self.n


def run(n=150, seed=0, nedge=12):
    from vf import chplug

    rnd = random.Random(seed)
    bad = []
    cnt = 0
    for width, signed in ((16, False), (32, False), (64, True)):
        lo, hi = (-(2 ** (width - 1)), 2 ** (width - 1) - 1) if signed else (0, 2**width - 1)
        edge = [lo, lo + 1, hi, hi - 1, 0, 1, -1 if signed else 2, 0xFF, 0x100, 0x8000 & hi, 0xFFFF & hi, 0x5555 & hi]
        edge = edge[:nedge]
        vecs = [(a, b) for a in edge for b in edge]
        vecs += [(rnd.randint(lo, hi), rnd.randint(lo, hi)) for _ in range(n)]
        vecs += [(rnd.randint(lo, hi) >> rnd.randrange(width), rnd.randint(lo, hi) >> rnd.randrange(width)) for _ in range(n)]
        for op in (ops.or_, ops.xor, ops.and_):
            for a, b in vecs:
                sp = _FakeSpace()
                av, bv = z3.Int("a"), z3.Int("b")
                sp.add(av == a)
                sp.add(bv == b)
                r = chplug.model_bitop(sp, op, av, bv, width, signed)
                assert sp.s.check() == z3.sat, (op, a, b, width)
                got = sp.s.model().eval(r, model_completion=True).as_long()
                cnt += 1
                if got != op(a, b):
                    bad.append((op.__name__, width, a, b, got, op(a, b)))
    # sparse-constant shortcuts
    class _Sp(_FakeSpace):
        def is_possible(self, e):
            return self.s.check(e) == z3.sat
    for op in (ops.or_, ops.xor, ops.and_):
        for c in (0x451, 0x49, 0x80000001, 1, 0x8100):
            for x in [0, 1, 0x451, 0xFFFFFFFF, 0x450, 0x10, 0x400] + [rnd.randint(0, 2**32 - 1) for _ in range(max(4, n // 4))]:
                sp = _Sp()
                xv = z3.Int("x")
                sp.add(xv == x)
                r = chplug._sparse_const(sp, op, xv, c)
                assert sp.s.check() == z3.sat
                got = sp.s.model().eval(r, model_completion=True).as_long()
                cnt += 1
                if got != op(x, c):
                    bad.append((op.__name__, "sparse", x, c, got, op(x, c)))
    return cnt, bad


if __name__ == "__main__":
    c, bad = run()
    print("bit-operation model: %d vectors, %d mismatches" % (c, len(bad)))
    for b in bad[:10]:
        print("  MISMATCH", b)
    raise SystemExit(1 if bad else 0)
