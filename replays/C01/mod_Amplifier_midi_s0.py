#!/venv/bin/python
# Replay of a solver counterexample against the real library: no CrossHair, no stubs, real io.BytesIO.
# property C01  obligation mod.Amplifier.midi.s0
# Amplifier: the midi module settings survive save/load at their documented widths
# exit 1 = the property fails for this input on the current /repo tree; exit 0 = it holds.
import os, sys
os.environ["VF_REPLAY"] = "1"
sys.path.insert(0, "/verif")
ARGS = (False, 16, 0, -1, 0)
KWARGS = {}
HARNESS = 'from vf.prelude import *\nfrom rv.modules import MODULE_CLASSES\nfrom vf.invariants import *\n\n\ndef h(i_always: bool, i_inch: int, i_outch: int, i_bank: int, i_prog: int) -> bool:\n    """\n    pre: (0 <= i_inch <= 2147483647) and (0 <= i_outch <= 4294967295) and (-2147483648 <= i_bank <= 2147483647) and (-2147483648 <= i_prog <= 2147483647)\n    post: _\n    """\n    p = Project()\n    mod = p.new_module(MODULE_CLASSES[\'Amplifier\'])\n    mod.midi_in_always = i_always\n    mod.midi_in_channel = i_inch\n    mod.midi_out_channel = i_outch\n    mod.midi_out_bank = i_bank\n    mod.midi_out_program = i_prog\n    s1 = snap_project(p, groups=("modules",), module_groups=("type", \'midi\'))\n    q = rt(p)\n    s2 = snap_project(q, groups=("modules",), module_groups=("type", \'midi\'))\n    return same(s1, s2)\n\n\ndef h__reach(i_always: bool, i_inch: int, i_outch: int, i_bank: int, i_prog: int) -> bool:\n    """\n    pre: (0 <= i_inch <= 2147483647) and (0 <= i_outch <= 4294967295) and (-2147483648 <= i_bank <= 2147483647) and (-2147483648 <= i_prog <= 2147483647)\n    post: _\n    """\n    h(i_always, i_inch, i_outch, i_bank, i_prog)\n    return False\n'
ns = {"__name__": "vf_replay"}
exec(compile(HARNESS, "<harness mod.Amplifier.midi.s0>", "exec"), ns)
try:
    ok = ns['h'](*ARGS, **KWARGS)
except Exception as e:
    import traceback; traceback.print_exc()
    print("replay: raised", type(e).__name__, e)
    sys.exit(1)
print("replay: h(*%r, **%r) returned %r" % (ARGS, KWARGS, ok))
sys.exit(0 if ok else 1)
