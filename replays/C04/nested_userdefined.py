#!/venv/bin/python
# Replay of a solver counterexample against the real library: no CrossHair, no stubs, real io.BytesIO.
# property C04  obligation nested.userdefined
# a reference-encoded MetaModule with two user-defined controllers and no label chunks: the controllers are attached and their stored values decode with the mapped controller's offset convention
# exit 1 = the property fails for this input on the current /repo tree; exit 0 = it holds.
import os, sys
os.environ["VF_REPLAY"] = "1"
sys.path.insert(0, "/verif")
ARGS = (0, 0, 0)
KWARGS = {}
HARNESS = 'from vf.prelude import *\nfrom rv.modules import MODULE_CLASSES\nfrom vf import refformat as RF\nfrom vf.invariants import *\n\n\ndef snap_any(o):\n    if hasattr(o, "modules"):\n        return snap_project(o)\n    return [("synth_version", tuple(o.loaded_sunsynth_version))] + snap_module(o.module)\n\n\ndef pick(seq, sel):\n    """seq[sel] for a symbolic selector, as a forked linear search (concrete on every path)"""\n    for i in range(len(seq)):\n        if sel == i:\n            return i\n    return len(seq) - 1\n\n\ndef h(w1: int, w2: int, bal: int) -> bool:\n    """\n    pre: (0 <= w1 <= 256) and (0 <= w2 <= 1024) and (-128 <= bal <= 128)\n    post: _\n    """\n    inner = RF.enc_project(modules=[RF.enc_output(), RF.enc_module("Amplifier", flags=0x51, in_project=True, cvals=[200, 128 + bal])])\n    mapping = RF.u16(1) + RF.u16(1) + RF.u16(1) + RF.u16(0) + [0] * (4 * 94)       # user #1 -> module 1 controller index 1 (balance), user #2 -> volume\n    opts = [2, 0, 0, 0, 0, 0, 0, 0]                                                      # 2 user-defined controllers (options byte 0)\n    mm = RF.enc_module("MetaModule", flags=0x8051, cvals=[256, 1, 0, 125, 6, w1, w2], chunks=[(0, inner), (1, mapping), (2, opts)], chnk=104)\n    m_ = load_bytes(RF.cat([RF.ck(b"SSYN"), RF.ck(b"VERS", [1, 2, 1, 2])] + mm + [RF.ck(b"SEND")])).module\n    return (m_.user_defined_controllers == 2 and [c.attached(m_) for c in m_.user_defined][:3] == [True, True, False]\n            and m_.user_defined_1 == w1 - 128 and m_.user_defined_2 == w2 and m_.project.modules[1].balance == bal)\n\n\ndef h__reach(w1: int, w2: int, bal: int) -> bool:\n    """\n    pre: (0 <= w1 <= 256) and (0 <= w2 <= 1024) and (-128 <= bal <= 128)\n    post: _\n    """\n    h(w1, w2, bal)\n    return False\n'
ns = {"__name__": "vf_replay"}
exec(compile(HARNESS, "<harness nested.userdefined>", "exec"), ns)
try:
    ok = ns['h'](*ARGS, **KWARGS)
except Exception as e:
    import traceback; traceback.print_exc()
    print("replay: raised", type(e).__name__, e)
    sys.exit(1)
print("replay: h(*%r, **%r) returned %r" % (ARGS, KWARGS, ok))
sys.exit(0 if ok else 1)
