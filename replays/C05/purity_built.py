#!/venv/bin/python
# Replay of a solver counterexample against the real library: no CrossHair, no stubs, real io.BytesIO.
# property C05  obligation purity.built
# saving a project built through the API (fan-in, one link removed at a symbolic place: first, last = trailing freed slot, the output's, or none) leaves every observable field incl. all four link tables as it was; two saves give identical bytes
# exit 1 = the property fails for this input on the current /repo tree; exit 0 = it holds.
import os, sys
os.environ["VF_REPLAY"] = "1"
sys.path.insert(0, "/verif")
ARGS = (3, 0, 0)
KWARGS = {}
HARNESS = 'from vf.prelude import *\nfrom rv.modules import MODULE_CLASSES\nfrom vf import refformat as RF\nfrom vf.invariants import *\n\n\ndef cycle(X):\n    """-> (ok, reason)   Y = save(load(X)); Y\' = save(load(Y)); purity of save"""\n    try:\n        a = load_bytes(X)\n    except Exception:\n        return True   # X is not loadable: outside the property (e.g. a stored enum value that is no member)\n    s0 = snap_any(a)\n    Y = save_bytes(a)\n    s1 = snap_any(a)\n    Y_again = save_bytes(a)\n    if not same(s0, s1) or Y != Y_again:\n        return False\n    b = load_bytes(Y)\n    Y2 = save_bytes(b)\n    return Y == Y2\n\n\ndef snap_any(o):\n    if hasattr(o, "modules"):\n        return snap_project(o)\n    return snap_module(o.module)\n\n\ndef h(drop: int, v: int, nv: int) -> bool:\n    """\n    pre: (0 <= drop <= 3) and (0 <= v <= 1024) and (0 <= nv <= 129)\n    post: _\n    """\n    p = Project()\n    m_ = __import__("rv.api").api.m\n    a = p.new_module(m_.Amplifier, volume=v)\n    b = p.new_module(m_.Generator)\n    c = p.new_module(m_.Amplifier)\n    a >> c\n    b >> c\n    c >> p.output\n    for i_, mod_ in ((1, a), (2, b)):\n        if drop == i_:\n            c << ~mod_\n    if drop == 3:\n        p.output << ~c\n    pat = Pattern(lines=2, tracks=1)\n    p.attach_pattern(pat)\n    pat.data[1][0].vel = nv\n    raw = lambda: [(list(x.in_links), list(x.in_link_slots), list(x.out_links), list(x.out_link_slots)) for x in p.modules]\n    s0, r0 = snap_project(p), raw()\n    y0 = save_bytes(p)\n    s1, r1 = snap_project(p), raw()\n    y1 = save_bytes(p)\n    return same(s0, s1) and r0 == r1 and y0 == y1 and same(s0, snap_project(p)) and raw() == r0\n\n\ndef h__reach(drop: int, v: int, nv: int) -> bool:\n    """\n    pre: (0 <= drop <= 3) and (0 <= v <= 1024) and (0 <= nv <= 129)\n    post: _\n    """\n    h(drop, v, nv)\n    return False\n'
ns = {"__name__": "vf_replay"}
exec(compile(HARNESS, "<harness purity.built>", "exec"), ns)
try:
    ok = ns['h'](*ARGS, **KWARGS)
except Exception as e:
    import traceback; traceback.print_exc()
    print("replay: raised", type(e).__name__, e)
    sys.exit(1)
print("replay: h(*%r, **%r) returned %r" % (ARGS, KWARGS, ok))
sys.exit(0 if ok else 1)
