import z3, time, sys
F = z3.Float64()
RNE = z3.RNE()
def pv(v, mn, mx):
    # v: BV32 signed
    shifted = v - z3.BitVecVal(mn, 32)
    smax = mx - mn
    den = z3.fpDiv(RNE, z3.FPVal(float(smax), F), z3.FPVal(32768.0, F))
    q = z3.fpDiv(RNE, z3.fpSignedToFP(RNE, shifted, F), den)
    return z3.fpToSBV(z3.RTZ(), q, z3.BitVecSort(32))
for (mn, mx) in [(0,256),(-128,128),(0,14000),(1,32768),(-16384,16384),(0,1530),(1,1000),(0,44100),(-1000,1000)]:
    v = z3.BitVec('v', 32)
    s = z3.Solver()
    s.add(v >= mn, v <= mx)
    r = pv(v, mn, mx); r1 = pv(v+1, mn, mx)
    bad = z3.Or(r < 0, r > 32768, z3.And(v < mx, r > r1), z3.And(v == mx, r != 32768), z3.And(v == mn, r != 0))
    s.add(bad)
    t=time.time(); res = s.check(); dt=time.time()-t
    print(mn, mx, res, round(dt,2), s.model() if res==z3.sat else "")
    sys.stdout.flush()
