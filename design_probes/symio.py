class PyFile:
    """Pure-python seekable binary file, keeps pieces as written (may be symbolic)."""
    def __init__(self, data=b""):
        self.buf = list(data)  # list of ints (maybe symbolic)
        self.pos = 0
        self.closed = False
    def write(self, b):
        n = len(b)
        for i in range(n):
            x = b[i]
            if self.pos < len(self.buf):
                self.buf[self.pos] = x
            else:
                self.buf.append(x)
            self.pos += 1
        return n
    def read(self, n=-1):
        if n is None or n < 0:
            n = len(self.buf) - self.pos
        out = self.buf[self.pos:self.pos + n]
        self.pos += len(out)
        return bytes(out)
    def tell(self):
        return self.pos
    def seek(self, pos, whence=0):
        if whence == 1:
            pos = self.pos + pos
        elif whence == 2:
            pos = len(self.buf) + pos
        self.pos = pos
        return pos
    def getvalue(self):
        return bytes(self.buf)
    def close(self):
        self.closed = True
    def __enter__(self): return self
    def __exit__(self, *a): self.close()
