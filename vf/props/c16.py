"""C16 — Sampler instruments keep samples, envelopes and maps bit-exact."""
import itertools
import random

from vf.harness import B, I8, I32, R, U8, U16, U32, Ob, build
from vf.modgen import SETUP as MSETUP

EXPLANATION = (
    "C16: Samplers are built through the public API with every field of one field group symbolic at its struct width (the other groups hold seeded values), "
    "written by the real Synth writer, read back by the real reader and compared by the sampler snapshot; the same bytes are decoded by REF-DEC against the "
    "documented record layouts (400-byte instrument record with its offsets, 40-byte sample records, envelope chunks of 0x14 + 4n bytes).  "
    "Pre-envelope legacy instruments are produced by the reference encoder with symbolic legacy point bytes."
)
BOUNDS = {"quick": {"sample slots": "every non-empty subset of {0, 1, 64, 127} (15)", "sample data": "lengths 0..8 (seeded per obligation) x 3 formats x 2 channel modes, every byte symbolic",
                    "envelopes": "point counts 0..4 and 13 (past the 12-point legacy table; 2 symbolic points) per envelope (7 envelopes), x u16, y over the envelope's 16-bit window, sustain/loop points 0..255, flags, ctl/gain/velocity u8",
                    "note map": "119 entries: 34 symbolic (both ends, the 96-entry legacy boundary, 6 seeded), the rest seeded", "record fields": "every field at its struct width", "legacy": "pre-envelope records with 0..3 active points, all point bytes symbolic"},
          "thorough": {"envelopes": "point counts 0..4, 12, 13, 64", "sample data": "all lengths 0..8 for every format/channel combination"}}
OUTSIDE = ["sample names / instrument names ending in NUL bytes (stored NUL-padded, so trailing NULs are not representable)", "more than 255 envelope points or sustain/loop point indices above 255 (mirrored in 8-bit legacy fields of the record)",
           "sample data longer than 8 bytes", "options (C11)"]
ASSUMPTIONS = ["envelope y values lie in [range minimum, range minimum + 65535] (the field is 16 bits after the offset)"]

SETUP = MSETUP + '''from vf import refformat as RF
SMP = MODULE_CLASSES["Sampler"]
SG = ("type", "payload")


def rt_sampler(s):
    data = save_bytes(Synth(s))
    t = load_bytes(data).module
    return data, t


def rec_of(data, chnm):
    ver, md = RF.decode_synth(data)
    r = [c for c in md["chunks"] if c["chnm"] == chnm]
    return r[0] if len(r) == 1 else None
'''

FORMATS = [("int8", 1), ("int16", 2), ("float32", 4)]
CHANNELS = [("mono", 1), ("stereo", 2)]


def sample_obs(tier, rnd):
    obs = []
    slots_all = [0, 1, 64, 127]
    subsets = [list(c) for r in range(1, 5) for c in itertools.combinations(slots_all, r)]
    combos = list(itertools.product(FORMATS, CHANNELS))
    for si, sub in enumerate(subsets):
        (fmt, fs), (chn, cs) = combos[si % len(combos)]
        frame = fs * cs
        nbytes = rnd.choice([0, frame, min(8, 2 * frame)]) if frame <= 8 else 0
        if nbytes > 8:
            nbytes = 8
        sym_slot = rnd.choice(sub)
        params, lines = [], []
        for sl in sub:
            lines.append(f"    s{sl} = SMP.Sample()")
            lines.append(f"    s{sl}.format = SMP.Format.{fmt}")
            lines.append(f"    s{sl}.channels = SMP.Channels.{chn}")
            if sl == sym_slot:
                bs = [f"d{i}" for i in range(nbytes)]
                params += [U8(b) for b in bs]
                params += [U32("ls"), U32("ll"), U8("vol"), R("pan", -128, 127), U32("sp"), U32("rate"), U8("res")]
                lines.append(f"    s{sl}.data = bytes([{', '.join(bs)}])")
                lines += [f"    s{sl}.loop_start = ls", f"    s{sl}.loop_len = ll", f"    s{sl}.volume = vol", f"    s{sl}.panning = pan", f"    s{sl}.start_pos = sp", f"    s{sl}.rate = rate", f"    s{sl}.reserved2 = res",
                          f"    s{sl}.loop_type = SMP.LoopType({rnd.choice([0, 1, 2])})", f"    s{sl}.loop_sustain = {rnd.choice([True, False])}", f"    s{sl}.name = b'nm{sl}'"]
            else:
                lines.append(f"    s{sl}.data = bytes({[rnd.randrange(256) for _ in range(nbytes)]!r})")
                lines.append(f"    s{sl}.volume = {rnd.randrange(65)}")
            lines.append(f"    s.samples[{sl}] = s{sl}")
        code = "\n".join(lines)
        body = f"""
    s = SMP()
{code}
    s1 = snap_sampler(s, "", groups=("samples",))
    data, t = rt_sampler(s)
    if not same(s1, snap_sampler(t, "", groups=("samples",))):
        return False
    # documented layout of the sample record (CHNM 2n+1, 40 bytes) and waveform chunk (CHNM 2n+2)
    r = rec_of(data, {sym_slot} * 2 + 1)
    w = rec_of(data, {sym_slot} * 2 + 2)
    # (the documentation, written for 1.9.4, ends the record at 0x28; current files append start_pos there)
    if r is None or w is None or len(r["chdt"]) != 44:
        return False
    c = r["chdt"]
    ok = RF.rd_u32(c, 0) == {nbytes // frame} and RF.rd_u32(c, 4) == ls and RF.rd_u32(c, 8) == ll and c[0x0c] == vol and c[0x0f] == pan + 128 and c[0x11] == res
    ok = ok and RF.rd_u32(c, 0x28) == sp and bytes(c[0x12:0x14]) == b"nm" and list(w["chdt"]) == [{', '.join(f'd{i}' for i in range(nbytes))}] and w["chfr"] == rate
    rec0 = rec_of(data, 0)
    return ok and RF.rd_u16(rec0["chdt"], 0x1c) == {max(sub) + 1}
"""
        obs.append(Ob(f"samples.{'_'.join(map(str, sub))}", build(params, body, setup=SETUP),
                      "samples stay at their slot indices and keep PCM bytes, format, channels, rate, loop settings, volume, panning, name, start position; sample record in the documented layout (40 documented bytes + start_pos)",
                      group="samples", shape=f"slots {sub}; {fmt}/{chn}; data length {nbytes}; slot {sym_slot} symbolic, others seeded",
                      symbolic=f"{nbytes} data bytes, loop start/len u32, volume u8, panning -128..127, start_pos u32, rate u32, reserved byte", timeout=300))
    # signed 8-bit sample fields (each forks in the writer): separate obligations
    body = """
    s = SMP()
    a = SMP.Sample()
    a.data = b"ab"
    a.format = SMP.Format.int8
    a.channels = SMP.Channels.mono
    a.finetune = ft
    a.relative_note = rn
    s.samples[3] = a
    data, t = rt_sampler(s)
    c = rec_of(data, 7)["chdt"]
    return t.samples[3].finetune == ft and t.samples[3].relative_note == rn and c[0x0d] == ft % 256 and c[0x10] == rn % 256 and t.samples[2] is None
"""
    obs.append(Ob("samples.signed", build([I8("ft"), I8("rn")], body, setup=SETUP), "sample finetune and relative note (signed 8-bit) survive and sit at their documented offsets", group="samples",
                  shape="one sample at slot 3", symbolic="finetune, relative note over -128..127", timeout=120))
    for (fmt, fs), (chn, cs) in (combos if tier == "thorough" else [combos[1], combos[2]]):
        body = f"""
    s = SMP()
    a = SMP.Sample()
    a.data = b"\\x01\\x02\\x03\\x04\\x05\\x06\\x07\\x08"
    a.format = SMP.Format.{fmt}
    a.channels = SMP.Channels.{chn}
    a.loop_type = SMP.LoopType(lt)
    a.loop_sustain = su
    s.samples[0] = a
    data, t = rt_sampler(s)
    b_ = t.samples[0]
    flags = rec_of(data, 1)["chdt"][0x0e]
    return (b_.format is a.format and b_.channels is a.channels and b_.loop_type.value == lt and b_.loop_sustain == su and b_.data == a.data
            and flags % 4 == lt and (flags // 4) % 2 == (1 if su else 0) and (flags // 16) % 4 == {FORMATS.index((fmt, fs))} and (flags // 64) % 2 == {cs - 1})
"""
        obs.append(Ob(f"samples.flags.{fmt}.{chn}", build([R("lt", 0, 2), B("su")], body, setup=SETUP), "loop type, sustain flag, format and channel mode pack into the documented loop-and-format bitmap and come back",
                      group="samples", shape=f"{fmt}/{chn}, 8 data bytes", symbolic="loop type 0..2, sustain flag", timeout=120))
    return obs


ENVS = [("volume_envelope", 0x102, 0), ("panning_envelope", 0x103, -0x4000), ("pitch_envelope", 0x104, -0x4000),
        ("effect_control_envelopes[0]", 0x105, 0), ("effect_control_envelopes[1]", 0x106, 0), ("effect_control_envelopes[2]", 0x107, 0), ("effect_control_envelopes[3]", 0x108, 0)]


def envelope_obs(tier, rnd):
    obs = []
    counts = [0, 1, 2, 3, 4] if tier == "quick" else [0, 1, 2, 3, 4, 12, 13, 64]
    for ei, (attr, chnm, ymin) in enumerate(ENVS):
        for n in ([counts[(ei + k) % len(counts)] for k in range(2)] + [13] if tier == "quick" else counts):
            nsym = min(n, 6) if (tier != "quick" or n <= 4) else 2
            params = []
            pts = []
            for i in range(n):
                if i < nsym:
                    params += [U16(f"x{i}"), R(f"y{i}", ymin, ymin + 65535)]
                    pts.append(f"(x{i}, y{i})")
                else:
                    pts.append(f"({rnd.randrange(65536)}, {ymin + rnd.randrange(0x8001)})")
            legacy = attr in ("volume_envelope", "panning_envelope")
            params += [R("sus", 0, 255), R("lst", 0, 255), R("lend", 0, 255), U8("ci"), U8("gain"), U8("vel")]
            body = f"""
    s = SMP()
    e = s.{attr}
    e.points = [{', '.join(pts)}]
    e.sustain_point = sus
    e.loop_start_point = lst
    e.loop_end_point = lend
    e.ctl_index = ci
    e.gain_pct = gain
    e.velocity = vel
    e.enable = {rnd.choice([True, False])}
    e.sustain = {rnd.choice([True, False])}
    e.loop = {rnd.choice([True, False])}
    s1 = snap_sampler(s, "", groups=("envelopes",))
    data, t = rt_sampler(s)
    if not same(s1, snap_sampler(t, "", groups=("envelopes",))):
        return False
    c = rec_of(data, {chnm})["chdt"]
    if len(c) != 0x14 + 4 * {n}:
        return False
    ok = c[0] == (1 if e.enable else 0) + (2 if e.sustain else 0) + (4 if e.loop else 0) and c[1] == 0 and c[2] == ci and c[3] == gain and c[4] == vel
    ok = ok and RF.rd_u16(c, 8) == {n} and RF.rd_u16(c, 0x0a) == sus and RF.rd_u16(c, 0x0c) == lst and RF.rd_u16(c, 0x0e) == lend
    {"".join(f"ok = ok and RF.rd_u16(c, {0x14 + 4 * i}) == x{i} and RF.rd_u16(c, {0x16 + 4 * i}) == y{i} - ({ymin})" + chr(10) + "    " for i in range(nsym))}
    return ok
"""
            obs.append(Ob(f"env.{attr.replace('[', '').replace(']', '')}.n{n}", build(params, body, setup=SETUP),
                          f"{attr} with {n} points: points, sustain/loop points and ctl/gain/velocity survive; the chunk (CHNM {chnm:#x}) is 0x14 + 4n bytes in the documented layout with y stored minus the range minimum",
                          group="envelopes", shape=f"{attr}, {n} points ({nsym} symbolic); flags seeded", symbolic="point x u16 / y over the 16-bit window, sustain/loop points 0..255, ctl/gain/velocity u8", timeout=300))
        # flags
        body = f"""
    s = SMP()
    e = s.{attr}
    # (booleans made concrete by forking: the flag byte is built with | on bools)
    e.enable = True if a else False
    e.sustain = True if b_ else False
    e.loop = True if c else False
    data, t = rt_sampler(s)
    f = t.{attr}
    return f.enable == a and f.sustain == b_ and f.loop == c and rec_of(data, {chnm})["chdt"][0] == (1 if a else 0) + (2 if b_ else 0) + (4 if c else 0)
"""
        obs.append(Ob(f"env.{attr.replace('[', '').replace(']', '')}.flags", build([B("a"), B("b_"), B("c")], body, setup=SETUP), f"{attr}: enable/sustain/loop flags survive and pack into the documented flag bits",
                      group="envelopes", shape=attr, symbolic="three flags", timeout=120))
    return obs


def record_obs(tier, rnd):
    obs = []
    # note map: 119 entries; symbolic at the positions around every boundary (start, the 96-entry legacy copy, the end), seeded elsewhere
    symp = sorted(set(list(range(0, 8)) + list(range(90, 102)) + list(range(111, 119)) + rnd.sample(range(8, 90), 6)))
    vals = [f"n{i}" if i in symp else str(rnd.randrange(256)) for i in range(119)]
    params = [U8(f"n{i}") for i in symp]
    sets = "\n".join(f"    s.note_samples[keys[{i}]] = {vals[i]}" for i in range(119))
    body = f"""
    s = SMP()
    keys = list(s.note_samples.keys())
    if len(keys) != 119:
        return False
{sets}
    data, t = rt_sampler(s)
    if list(t.note_samples.values()) != [{', '.join(vals)}]:
        return False
    c = rec_of(data, 0)["chdt"]
    if len(c) != 400:
        return False
    return list(c[0x104:0x104 + 119]) == [{', '.join(vals)}] and list(c[0x24:0x24 + 96]) == [{', '.join(vals[:96])}] and list(c[0x17b:0x184]) == [0] * 9 and bytes(c[0xfc:0x100]) == b"PMAS"
"""
    obs.append(Ob("notemap", build(params, body, setup=SETUP), "all 119 note-to-sample entries survive; the instrument record is 400 bytes with the map at 0x104 (+9 zero bytes), the legacy 96-entry copy at 0x24 and the signature at 0xfc",
                  group="notemap", shape="Sampler(); 34 map positions symbolic (0-7, 90-101, 111-118, 6 seeded), the rest seeded constants", symbolic="34 map bytes", timeout=400))
    groups = [
        ("vibrato", [("vibrato_attack", U8), ("vibrato_depth", U8), ("vibrato_rate", lambda n: R(n, 0, 63)), ("volume_fadeout", lambda n: R(n, 0, 8192)), ("vibrato_type", lambda n: R(n, 0, 2))],
         "c[0xee] == vibrato_type and c[0xef] == vibrato_attack and c[0xf0] == vibrato_depth and c[0xf1] == vibrato_rate and RF.rd_u16(c, 0xf2) == volume_fadeout"),
        ("editor_u", [("volume_old", U8), ("unused1", U32), ("unused2", U16), ("unused3", U16), ("unused4", U32), ("unused5", U8), ("unused6", U32), ("version", U32), ("max_version", U32)],
         "RF.rd_u32(c, 0) == unused1 and RF.rd_u16(c, 0x1a) == unused2 and RF.rd_u16(c, 0x1e) == unused3 and RF.rd_u32(c, 0x20) == unused4 and c[0xf4] == volume_old and c[0xf6] == unused5 and RF.rd_u32(c, 0xf8) == unused6 and RF.rd_u32(c, 0x100) == version and RF.rd_u32(c, 0x184) == max_version"),
        ("editor_s", [("ins_finetune", I8), ("ins_relative_note", I8), ("editor_cursor", I32)], "c[0xf5] == ins_finetune % 256 and c[0xf7] == ins_relative_note % 256 and RF.rd_s32(c, 0x188) == editor_cursor"),
        ("editor_t", [("editor_selected_size", I32)], "RF.rd_s32(c, 0x18c) == editor_selected_size"),
    ]
    for gname, fields, layout in groups:
        params = [k(n) for n, k in fields]
        sets = "\n".join(f"    s.{n} = " + (f"SMP.VibratoType({n})" if n == "vibrato_type" else n) for n, _ in fields)
        body = f"""
    s = SMP()
{sets}
    s.instrument_name = b"instr"
    s1 = snap_sampler(s, "", groups=("vibrato", "editor"))
    data, t = rt_sampler(s)
    if not same(s1, snap_sampler(t, "", groups=("vibrato", "editor"))):
        return False
    c = rec_of(data, 0)["chdt"]
    return len(c) == 400 and bytes(c[4:9]) == b"instr" and {layout}
"""
        obs.append(Ob(f"record.{gname}", build(params, body, setup=SETUP), f"instrument record fields {[n for n, _ in fields]} survive at their struct widths and sit at their documented offsets in the 400-byte record",
                      group="record", shape="Sampler()", symbolic=", ".join(n for n, _ in fields), timeout=300))
    # names: fixed-width char[22] fields; lengths are shape (concrete), bytes symbolic
    for ln in ((0, 21, 22, 23, 30) if tier == "quick" else (0, 1, 21, 22, 23, 24, 30, 64)):
        nsym = min(ln, 3)
        params = [R(f"c{i}", 1, 255) for i in range(nsym)] or [U8("unused")]
        # symbolic bytes at the start, at byte 21/22 (the field boundary) when present
        pos = sorted({0, min(ln - 1, 21), ln - 1} - {-1})[:nsym] if ln else []
        expr = "bytes([" + ", ".join((f"c{pos.index(i)}" if i in pos else str(65 + i % 26)) for i in range(ln)) + "])"
        body = f"""
    s = SMP()
    nm = {expr}
    s.instrument_name = nm
    a = SMP.Sample()
    a.data = b"ab"
    a.format = SMP.Format.int8
    a.channels = SMP.Channels.mono
    a.name = nm
    s.samples[2] = a
    data, t = rt_sampler(s)
    r0 = rec_of(data, 0)["chdt"]
    r5 = rec_of(data, 5)["chdt"]
    if len(r0) != 400 or len(r5) != 44 or bytes(r0[0xfc:0x100]) != b"PMAS" or RF.rd_u16(r0, 0x1c) != 3:
        return False
    return t.instrument_name == nm[:22] and t.samples[2].name == nm[:22] and bytes(r0[4:4 + {min(ln, 22)}]) == nm[:22] and bytes(r5[0x12:0x12 + {min(ln, 22)}]) == nm[:22] and t.samples[2].data == b"ab"
"""
        obs.append(Ob(f"record.names.{ln}", build(params, body, setup=SETUP), f"instrument and sample names of {ln} bytes: stored in the 22-byte fields (longer names cut), records keep their fixed sizes and later fields their offsets",
                      group="record", shape=f"name length {ln}", symbolic=f"{nsym} name bytes (non-zero) at the start and at the field boundary", timeout=240))
    # embedded effect
    body = """
    s = SMP()
    s.effect = Synth(MODULE_CLASSES["Amplifier"](volume=v, balance=bal, inverse=inv))
    s1 = snap_sampler(s, "", groups=("effect",))
    data, t = rt_sampler(s)
    if not same(s1, snap_sampler(t, "", groups=("effect",))):
        return False
    u = SMP()
    d2, t2 = rt_sampler(u)
    return t2.effect is None and rec_of(d2, 0x10a) is None and rec_of(data, 0x10a) is not None
"""
    obs.append(Ob("effect", build([R("v", 0, 1024), R("bal", -128, 128), B("inv")], body, setup=SETUP), "the embedded effect (a synth) survives with its controller values; no effect chunk without an effect",
                  group="effect", shape="Sampler with an Amplifier effect", symbolic="3 controller values of the effect", timeout=240))
    return obs


def legacy_obs(tier, rnd):
    obs = []
    for nv, np_ in ((0, 0), (2, 1), (3, 3)) if tier == "quick" else ((0, 0), (1, 0), (2, 1), (3, 3), (12, 12)):
        params = []
        vp, pp = [], []
        for i in range(12):
            if i < nv:
                params += [U16(f"vx{i}"), R(f"vy{i}", 0, 0x40)]
                vp += [f"vx{i}", f"vy{i}"]
            else:
                vp += ["0", "0"]
            if i < np_:
                params += [U16(f"px{i}"), R(f"py{i}", 0, 0x40)]
                pp += [f"px{i}", f"py{i}"]
            else:
                pp += ["0", "0"]
        params += [R("vf", 0, 7), R("pf", 0, 7), U8("vs"), U8("ps")]
        body = f"""
    rec = RF.sampler_record(sign=b"\\0\\0\\0\\0", version=0, with_tail=False, vol_points=[{', '.join(vp)}], pan_points=[{', '.join(pp)}], nvol={nv}, npan={np_},
                            vol_flags=vf, pan_flags=pf, vol_sus=vs, pan_sus=ps, vib_depth=9, fadeout=300)
    X = RF.enc_synth("Sampler", flags=0x8459, cvals=[256, 128, 1, 1, 8, 4, 128, 0], chunks=[(0, rec), (1, [0] * 40), (2, [1, 2, 3, 4], 1, 8000)], chnk=0x10B)
    t = load_bytes(X).module
    vol, pan = t.volume_envelope, t.panning_envelope
    want_v = [{', '.join(f'(vx{i}, vy{i} * 0x200)' for i in range(nv))}]
    want_p = [{', '.join(f'(px{i}, py{i} * 0x200 - 0x4000)' for i in range(np_))}]
    if vol.points != want_v or pan.points != want_p:
        return False
    if (vol.enable, vol.sustain, vol.loop) != (vf % 2 == 1, (vf // 2) % 2 == 1, (vf // 4) % 2 == 1) or (pan.enable, pan.sustain, pan.loop) != (pf % 2 == 1, (pf // 2) % 2 == 1, (pf // 4) % 2 == 1):
        return False
    if vol.sustain_point != vs or pan.sustain_point != ps or t.vibrato_depth != 9 or t.volume_fadeout != 300 or t.samples[0].data != bytes([1, 2, 3, 4]):
        return False
    # saving keeps what the legacy instrument carried
    s1 = snap_sampler(t, "")
    u = load_bytes(save_bytes(Synth(t))).module
    return same(s1, snap_sampler(u, ""))
"""
        obs.append(Ob(f"legacy.{nv}_{np_}", build(params, body, setup=SETUP), "a pre-envelope legacy instrument loads with its volume/panning envelopes converted (y x 0x200, panning centred) and survives save/load with all it carried",
                      group="legacy", shape=f"REF-ENC legacy record (no signature, no envelope chunks), {nv} volume / {np_} panning points, one 4-byte sample", symbolic="legacy point x u16 / y 0..0x40, envelope flag bytes, sustain points", timeout=400))
    return obs


def obligations(tier, seed):
    rnd = random.Random(seed)
    return sample_obs(tier, rnd) + envelope_obs(tier, rnd) + record_obs(tier, rnd) + legacy_obs(tier, rnd)
