#!/venv/bin/python
# Replay of a solver counterexample against the real library: no CrossHair, no stubs, real io.BytesIO.
# property C09  obligation range.stale.FMX.op4_noise
# FMX, controllers ['op4_noise', 'op5_noise', 'op1_phase', 'op2_phase', 'op3_phase', 'op4_phase']: whatever integer w the module already stores (leniently stored values may be out of range), a strict assignment of v is accepted iff min <= v <= max, otherwise ControllerValueError and the stored value remains
# exit 1 = the property fails for this input on the current /repo tree; exit 0 = it holds.
import os, sys
os.environ["VF_REPLAY"] = "1"
sys.path.insert(0, "/verif")
ARGS = (32769, 32769)
KWARGS = {}
HARNESS = 'from vf.prelude import *\nfrom rv.modules import MODULE_CLASSES\nfrom rv.errors import ControllerValueError, override_raise_controller_value_errors\nCLS = MODULE_CLASSES[\'FMX\']\n\n\ndef h(w: int, v: int) -> bool:\n    """\n    post: _\n    """\n    mod = CLS()\n    with override_raise_controller_value_errors(False):\n        mod.op4_noise = w\n    before = mod.op4_noise\n    try:\n        mod.op4_noise = v\n    except ControllerValueError:\n        if 0 <= v <= 32768 or mod.op4_noise != before:\n            return False\n    else:\n        if not (0 <= v <= 32768) or mod.op4_noise != v:\n            return False\n    with override_raise_controller_value_errors(False):\n        mod.op5_noise = w\n    before = mod.op5_noise\n    try:\n        mod.op5_noise = v\n    except ControllerValueError:\n        if 0 <= v <= 32768 or mod.op5_noise != before:\n            return False\n    else:\n        if not (0 <= v <= 32768) or mod.op5_noise != v:\n            return False\n    with override_raise_controller_value_errors(False):\n        mod.op1_phase = w\n    before = mod.op1_phase\n    try:\n        mod.op1_phase = v\n    except ControllerValueError:\n        if 0 <= v <= 32768 or mod.op1_phase != before:\n            return False\n    else:\n        if not (0 <= v <= 32768) or mod.op1_phase != v:\n            return False\n    with override_raise_controller_value_errors(False):\n        mod.op2_phase = w\n    before = mod.op2_phase\n    try:\n        mod.op2_phase = v\n    except ControllerValueError:\n        if 0 <= v <= 32768 or mod.op2_phase != before:\n            return False\n    else:\n        if not (0 <= v <= 32768) or mod.op2_phase != v:\n            return False\n    with override_raise_controller_value_errors(False):\n        mod.op3_phase = w\n    before = mod.op3_phase\n    try:\n        mod.op3_phase = v\n    except ControllerValueError:\n        if 0 <= v <= 32768 or mod.op3_phase != before:\n            return False\n    else:\n        if not (0 <= v <= 32768) or mod.op3_phase != v:\n            return False\n    with override_raise_controller_value_errors(False):\n        mod.op4_phase = w\n    before = mod.op4_phase\n    try:\n        mod.op4_phase = v\n    except ControllerValueError:\n        if 0 <= v <= 32768 or mod.op4_phase != before:\n            return False\n    else:\n        if not (0 <= v <= 32768) or mod.op4_phase != v:\n            return False\n    return True\n\n\ndef h__reach(w: int, v: int) -> bool:\n    """\n    post: _\n    """\n    h(w, v)\n    return False\n'
ns = {"__name__": "vf_replay"}
exec(compile(HARNESS, "<harness range.stale.FMX.op4_noise>", "exec"), ns)
try:
    ok = ns['h'](*ARGS, **KWARGS)
except Exception as e:
    import traceback; traceback.print_exc()
    print("replay: raised", type(e).__name__, e)
    sys.exit(1)
print("replay: h(*%r, **%r) returned %r" % (ARGS, KWARGS, ok))
sys.exit(0 if ok else 1)
