#!/venv/bin/python
# Replay of a solver counterexample against the real library: no CrossHair, no stubs, real io.BytesIO.
# property C09  obligation range.stale.Distortion.volume
# Distortion, controllers ['volume', 'power', 'bit_depth', 'freq', 'noise']: whatever integer w the module already stores (leniently stored values may be out of range), a strict assignment of v is accepted iff min <= v <= max, otherwise ControllerValueError and the stored value remains
# exit 1 = the property fails for this input on the current /repo tree; exit 0 = it holds.
import os, sys
os.environ["VF_REPLAY"] = "1"
sys.path.insert(0, "/verif")
ARGS = (128, 128)
KWARGS = {}
HARNESS = 'from vf.prelude import *\nfrom rv.modules import MODULE_CLASSES\nfrom rv.errors import ControllerValueError, override_raise_controller_value_errors\nCLS = MODULE_CLASSES[\'Distortion\']\n\n\ndef h(w: int, v: int) -> bool:\n    """\n    post: _\n    """\n    mod = CLS()\n    with override_raise_controller_value_errors(False):\n        mod.volume = w\n    before = mod.volume\n    try:\n        mod.volume = v\n    except ControllerValueError:\n        if 0 <= v <= 256 or mod.volume != before:\n            return False\n    else:\n        if not (0 <= v <= 256) or mod.volume != v:\n            return False\n    with override_raise_controller_value_errors(False):\n        mod.power = w\n    before = mod.power\n    try:\n        mod.power = v\n    except ControllerValueError:\n        if 0 <= v <= 256 or mod.power != before:\n            return False\n    else:\n        if not (0 <= v <= 256) or mod.power != v:\n            return False\n    with override_raise_controller_value_errors(False):\n        mod.bit_depth = w\n    before = mod.bit_depth\n    try:\n        mod.bit_depth = v\n    except ControllerValueError:\n        if 1 <= v <= 16 or mod.bit_depth != before:\n            return False\n    else:\n        if not (1 <= v <= 16) or mod.bit_depth != v:\n            return False\n    with override_raise_controller_value_errors(False):\n        mod.freq = w\n    before = mod.freq\n    try:\n        mod.freq = v\n    except ControllerValueError:\n        if 0 <= v <= 44100 or mod.freq != before:\n            return False\n    else:\n        if not (0 <= v <= 44100) or mod.freq != v:\n            return False\n    with override_raise_controller_value_errors(False):\n        mod.noise = w\n    before = mod.noise\n    try:\n        mod.noise = v\n    except ControllerValueError:\n        if 0 <= v <= 256 or mod.noise != before:\n            return False\n    else:\n        if not (0 <= v <= 256) or mod.noise != v:\n            return False\n    return True\n\n\ndef h__reach(w: int, v: int) -> bool:\n    """\n    post: _\n    """\n    h(w, v)\n    return False\n'
ns = {"__name__": "vf_replay"}
exec(compile(HARNESS, "<harness range.stale.Distortion.volume>", "exec"), ns)
try:
    ok = ns['h'](*ARGS, **KWARGS)
except Exception as e:
    import traceback; traceback.print_exc()
    print("replay: raised", type(e).__name__, e)
    sys.exit(1)
print("replay: h(*%r, **%r) returned %r" % (ARGS, KWARGS, ok))
sys.exit(0 if ok else 1)
