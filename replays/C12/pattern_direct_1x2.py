#!/venv/bin/python
# Replay of a solver counterexample against the real library: no CrossHair, no stubs, real io.BytesIO.
# property C12  obligation pattern.direct.1x2
# Pattern 1x2: raw_data setter then getter returns the same byte image, cells in row-major order
# exit 1 = the property fails for this input on the current /repo tree; exit 0 = it holds.
import os, sys
os.environ["VF_REPLAY"] = "1"
sys.path.insert(0, "/verif")
ARGS = (0, 0, 0, 0, 0, 0, 0, 0, 0, 1, 0, 0, 0, 0, 0)
KWARGS = {}
HARNESS = 'from vf.prelude import *\n\n\ndef h(v0: int, c0b0: int, c0b1: int, c0b2: int, c0b3: int, c0b4: int, c0b5: int, n1: int, v1: int, c1b0: int, c1b1: int, c1b2: int, c1b3: int, c1b4: int, c1b5: int) -> bool:\n    """\n    pre: (0 <= v0 <= 129) and (0 <= c0b0 <= 255) and (0 <= c0b1 <= 255) and (0 <= c0b2 <= 255) and (0 <= c0b3 <= 255) and (0 <= c0b4 <= 255)\n    pre: (0 <= c0b5 <= 255) and ((0 <= n1 <= 120 or 128 <= n1 <= 134 or n1 == 140)) and (0 <= v1 <= 129) and (0 <= c1b0 <= 255) and (0 <= c1b1 <= 255) and (0 <= c1b2 <= 255)\n    pre: (0 <= c1b3 <= 255) and (0 <= c1b4 <= 255) and (0 <= c1b5 <= 255)\n    post: _\n    """\n    img = bytes([10, v0, c0b0, c0b1, c0b2, c0b3, c0b4, c0b5, n1, v1, c1b0, c1b1, c1b2, c1b3, c1b4, c1b5])\n    p = Pattern(lines=1, tracks=2)\n    p.raw_data = img\n    if p.raw_data != img:\n        return False\n    # row-major: cell (l, t) is bytes [(l*T+t)*8, +8)\n    for l in range(1):\n        for t in range(2):\n            o = (l * 2 + t) * 8\n            if p.data[l][t].raw_data != img[o:o + 8]:\n                return False\n    return True\n\n\ndef h__reach(v0: int, c0b0: int, c0b1: int, c0b2: int, c0b3: int, c0b4: int, c0b5: int, n1: int, v1: int, c1b0: int, c1b1: int, c1b2: int, c1b3: int, c1b4: int, c1b5: int) -> bool:\n    """\n    pre: (0 <= v0 <= 129) and (0 <= c0b0 <= 255) and (0 <= c0b1 <= 255) and (0 <= c0b2 <= 255) and (0 <= c0b3 <= 255) and (0 <= c0b4 <= 255)\n    pre: (0 <= c0b5 <= 255) and ((0 <= n1 <= 120 or 128 <= n1 <= 134 or n1 == 140)) and (0 <= v1 <= 129) and (0 <= c1b0 <= 255) and (0 <= c1b1 <= 255) and (0 <= c1b2 <= 255)\n    pre: (0 <= c1b3 <= 255) and (0 <= c1b4 <= 255) and (0 <= c1b5 <= 255)\n    post: _\n    """\n    h(v0, c0b0, c0b1, c0b2, c0b3, c0b4, c0b5, n1, v1, c1b0, c1b1, c1b2, c1b3, c1b4, c1b5)\n    return False\n'
ns = {"__name__": "vf_replay"}
exec(compile(HARNESS, "<harness pattern.direct.1x2>", "exec"), ns)
try:
    ok = ns['h'](*ARGS, **KWARGS)
except Exception as e:
    import traceback; traceback.print_exc()
    print("replay: raised", type(e).__name__, e)
    sys.exit(1)
print("replay: h(*%r, **%r) returned %r" % (ARGS, KWARGS, ok))
sys.exit(0 if ok else 1)
