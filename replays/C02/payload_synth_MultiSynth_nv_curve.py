#!/venv/bin/python
# Replay of a solver counterexample against the real library: no CrossHair, no stubs, real io.BytesIO.
# property C02  obligation payload.synth.MultiSynth.nv_curve
# MultiSynth.nv_curve (128 elements) survives synth round trip element by element
# exit 1 = the property fails for this input on the current /repo tree; exit 0 = it holds.
import os, sys
os.environ["VF_REPLAY"] = "1"
sys.path.insert(0, "/verif")
ARGS = (0, 0, 0, 0, 1, 0, 0, 0, 0)
KWARGS = {}
HARNESS = 'from vf.prelude import *\nfrom rv.modules import MODULE_CLASSES\nfrom vf.invariants import *\n\n\ndef h(e0: int, e1: int, e20: int, e21: int, e50: int, e64: int, e126: int, e127: int, again: int) -> bool:\n    """\n    pre: (0 <= e0 <= 255) and (0 <= e1 <= 255) and (0 <= e20 <= 255) and (0 <= e21 <= 255) and (0 <= e50 <= 255) and (0 <= e64 <= 255)\n    pre: (0 <= e126 <= 255) and (0 <= e127 <= 255) and (0 <= again <= 255)\n    post: _\n    """\n    mod = MODULE_CLASSES[\'MultiSynth\']()\n    mod.nv_curve.values[0] = e0\n    mod.nv_curve.values[1] = e1\n    mod.nv_curve.values[20] = e20\n    mod.nv_curve.values[21] = e21\n    mod.nv_curve.values[50] = e50\n    mod.nv_curve.values[64] = e64\n    mod.nv_curve.values[126] = e126\n    mod.nv_curve.values[127] = e127\n    s1 = snap_module(mod, groups=("type", "payload"))\n    m2 = rt(Synth(mod)).module\n    if not same(s1, snap_module(m2, groups=("type", "payload"))):\n        return False\n    # the module has been serialised once; an in-place edit afterwards must be what the next save writes\n    mod.nv_curve.values[50] = again\n    s3 = snap_module(mod, groups=("type", "payload"))\n    m4 = rt(Synth(mod)).module\n    return same(s3, snap_module(m4, groups=("type", "payload"))) and m4.nv_curve.values[50] == again\n\n\ndef h__reach(e0: int, e1: int, e20: int, e21: int, e50: int, e64: int, e126: int, e127: int, again: int) -> bool:\n    """\n    pre: (0 <= e0 <= 255) and (0 <= e1 <= 255) and (0 <= e20 <= 255) and (0 <= e21 <= 255) and (0 <= e50 <= 255) and (0 <= e64 <= 255)\n    pre: (0 <= e126 <= 255) and (0 <= e127 <= 255) and (0 <= again <= 255)\n    post: _\n    """\n    h(e0, e1, e20, e21, e50, e64, e126, e127, again)\n    return False\n'
ns = {"__name__": "vf_replay"}
exec(compile(HARNESS, "<harness payload.synth.MultiSynth.nv_curve>", "exec"), ns)
try:
    ok = ns['h'](*ARGS, **KWARGS)
except Exception as e:
    import traceback; traceback.print_exc()
    print("replay: raised", type(e).__name__, e)
    sys.exit(1)
print("replay: h(*%r, **%r) returned %r" % (ARGS, KWARGS, ok))
sys.exit(0 if ok else 1)
