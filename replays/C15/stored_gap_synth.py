#!/venv/bin/python
# Replay of a solver counterexample against the real library: no CrossHair, no stubs, real io.BytesIO.
# property C15  obligation stored.gap.synth
# an unassigned user-defined slot (#2) followed by slots mapped onto negative-minimum targets (synth): every stored word is written as it is and decodes to the same value after the load (later slots adopt their target's range)
# exit 1 = the property fails for this input on the current /repo tree; exit 0 = it holds.
import os, sys
os.environ["VF_REPLAY"] = "1"
sys.path.insert(0, "/verif")
ARGS = (0, 0, 0, 0, 0, 0, 0, 0, 0)
KWARGS = {}
HARNESS = 'from vf.prelude import *\nfrom rv.modules import MODULE_CLASSES\nfrom vf.invariants import *\nfrom vf import refformat as RF\nMM = MODULE_CLASSES["MetaModule"]\nAMP = MODULE_CLASSES["Amplifier"]\nGEN = MODULE_CLASSES["Generator"]\nMS = MODULE_CLASSES["MultiSynth"]\nG = ("type", "common_synth", "midi", "ctl", "opt", "cmid", "payload")\n\n\ndef h(vol: int, bal: int, tr: int, bdc: int, bpm: int, nv: int, r1: int, r3: int, r4: int) -> bool:\n    """\n    pre: (0 <= vol <= 1024) and (-128 <= bal <= 128) and (-128 <= tr <= 128) and (-16384 <= bdc <= 16384) and (0 <= bpm <= 4294967295) and (0 <= nv <= 65535)\n    pre: (0 <= r1 <= 1024) and (0 <= r3 <= 256) and (0 <= r4 <= 256)\n    post: _\n    """\n    mm = MM()\n    mm_a = mm.project.new_module(AMP)\n    mm_g = mm.project.new_module(GEN)\n    mm_s = mm.project.new_module(MS)\n    mm_a.volume = vol\n    mm_a.balance = bal\n    mm_s.transpose = tr\n    mm_a.bipolar_dc_offset = bdc\n    mm_a.inverse = False\n    mm_g.waveform = GEN.controllers[\'waveform\'].value_type(0)\n    mm.project.initial_bpm = bpm\n    mm_a >> mm.project.output\n    mm_pat = Pattern(lines=1, tracks=1)\n    mm.project.attach_pattern(mm_pat)\n    mm_pat.data[0][0].val = nv\n    mm.user_defined_controllers = 0\n    mm.user_defined_controllers = 4\n    mm.mappings.values[0] = MM.Mapping((1, 0))\n    mm.mappings.values[2] = MM.Mapping((1, 1))\n    mm.mappings.values[3] = MM.Mapping((3, 0))\n    mm.update_user_defined_controllers()\n    mm.set_raw(\'user_defined_1\', r1)\n    mm.set_raw(\'user_defined_3\', r3)\n    mm.set_raw(\'user_defined_4\', r4)\n    if (mm.user_defined_1, mm.user_defined_3, mm.user_defined_4) != (r1, r3 - 128, r4 - 128):\n        return False\n    data = save_bytes(Synth(mm))\n    m2 = load_bytes(data).module\n    d = RF.decode_synth(data)[1]\n    # written words (independent decoder): the raw values themselves\n    if d[\'cvals\'][5:] != [r1, 0, r3, r4]:\n        return False\n    if (m2.user_defined_1, m2.user_defined_2, m2.user_defined_3, m2.user_defined_4) != (r1, 0, r3 - 128, r4 - 128):\n        return False\n    if [m2.get_raw(f"user_defined_{k}") for k in (1, 2, 3, 4)] != [r1, 0, r3, r4]:\n        return False\n    t3 = MM.controllers["user_defined_3"].instance_value_type(m2)\n    return (t3.min, t3.max) == (-128, 128) and m2.mappings.values[1].module == 0 and m2.mappings.values[2].controller == 1\n\n\ndef h__reach(vol: int, bal: int, tr: int, bdc: int, bpm: int, nv: int, r1: int, r3: int, r4: int) -> bool:\n    """\n    pre: (0 <= vol <= 1024) and (-128 <= bal <= 128) and (-128 <= tr <= 128) and (-16384 <= bdc <= 16384) and (0 <= bpm <= 4294967295) and (0 <= nv <= 65535)\n    pre: (0 <= r1 <= 1024) and (0 <= r3 <= 256) and (0 <= r4 <= 256)\n    post: _\n    """\n    h(vol, bal, tr, bdc, bpm, nv, r1, r3, r4)\n    return False\n'
ns = {"__name__": "vf_replay"}
exec(compile(HARNESS, "<harness stored.gap.synth>", "exec"), ns)
try:
    ok = ns['h'](*ARGS, **KWARGS)
except Exception as e:
    import traceback; traceback.print_exc()
    print("replay: raised", type(e).__name__, e)
    sys.exit(1)
print("replay: h(*%r, **%r) returned %r" % (ARGS, KWARGS, ok))
sys.exit(0 if ok else 1)
