#!/venv/bin/python
# Replay of a solver counterexample against the real library: no CrossHair, no stubs, real io.BytesIO.
# property C08  obligation hist.k2.1.con
# after save/load every module's in/out link tables and slot tables equal the originals up to trailing freed slots, the loaded tables are mutually consistent and the edge set is unchanged (also after a second save/load)
# exit 1 = the property fails for this input on the current /repo tree; exit 0 = it holds.
import os, sys
os.environ["VF_REPLAY"] = "1"
sys.path.insert(0, "/verif")
ARGS = (1, 6)
KWARGS = {}
HARNESS = 'from vf.prelude import *\nfrom rv.modules import MODULE_CLASSES\nfrom rv.modules.module import ModuleList\nfrom rv.errors import ModuleOwnershipError\nfrom vf.invariants import links_ok, edges, edges_out\n\n\ndef sel(mods, mask):\n    out = []\n    for i in range(len(mods)):\n        if (mask // (2 ** i)) % 2 == 1:\n            out.append(mods[i])\n    return out\n\n\ndef request(p, mods, E, fs, ts, disc, form):\n    """apply one request through the real API and to the specification set E"""\n    F = sel(mods, fs)\n    T = sel(mods, ts)\n    if form == 0:\n        # method call; `~` marks a disconnect request (on the source side here)\n        Fa = [~x for x in F] if disc else F\n        p.connect(Fa[0] if len(Fa) == 1 else Fa, T[0] if len(T) == 1 else T)\n    elif form == 1:\n        # F >> T ; disconnect marked on the right operand\n        left = F[0] if len(F) == 1 else ModuleList(p, F)\n        Ta = [~x for x in T] if disc else T\n        left >> (Ta[0] if len(Ta) == 1 else Ta)\n    else:\n        # T << F ; disconnect marked on the right operand\n        left = T[0] if len(T) == 1 else ModuleList(p, T)\n        Fa = [~x for x in F] if disc else F\n        left << (Fa[0] if len(Fa) == 1 else Fa)\n    for f in F:\n        for t in T:\n            if disc:\n                E.discard((f.index, t.index))\n            else:\n                E.add((f.index, t.index))\n\n\ndef good(p, E):\n    return links_ok(p) and edges(p) == E and edges_out(p) == E\nfrom vf.invariants import strip_links\nfrom vf import refformat as RF\n\n\ndef tables(m):\n    return (strip_links(m.in_links), strip_links(m.in_link_slots), strip_links(m.out_links), strip_links(m.out_link_slots))\n\n\ndef h(fs: int, ts: int) -> bool:\n    """\n    pre: (1 <= fs <= 7) and (1 <= ts <= 7)\n    post: _\n    """\n    p = Project()\n    mods = [p.output] + [p.new_module(MODULE_CLASSES["DC Blocker"]) for _ in range(2)]\n    E = set()\n    request(p, mods, E, 3, 3, False, 2)\n    request(p, mods, E, fs, ts, False, 0)\n    if not good(p, E):\n        return True   # (a broken pre-state is C07\'s business, not a persistence failure)\n    q = rt(p)\n    if len(q.modules) != len(p.modules):\n        return False\n    for a, b in zip(p.modules, q.modules):\n        if tables(a) != tables(b):\n            return False\n    return links_ok(q) and edges(q) == E and edges_out(q) == E\n\n\ndef h__reach(fs: int, ts: int) -> bool:\n    """\n    pre: (1 <= fs <= 7) and (1 <= ts <= 7)\n    post: _\n    """\n    h(fs, ts)\n    return False\n'
ns = {"__name__": "vf_replay"}
exec(compile(HARNESS, "<harness hist.k2.1.con>", "exec"), ns)
try:
    ok = ns['h'](*ARGS, **KWARGS)
except Exception as e:
    import traceback; traceback.print_exc()
    print("replay: raised", type(e).__name__, e)
    sys.exit(1)
print("replay: h(*%r, **%r) returned %r" % (ARGS, KWARGS, ok))
sys.exit(0 if ok else 1)
