#!/venv/bin/python
# Replay of a solver counterexample against the real library: no CrossHair, no stubs, real io.BytesIO.
# property C09  obligation range.stale.MultiSynth.transpose
# MultiSynth, controllers ['transpose', 'random_pitch', 'velocity', 'finetune', 'random_phase', 'random_velocity']: whatever integer w the module already stores (leniently stored values may be out of range), a strict assignment of v is accepted iff min <= v <= max, otherwise ControllerValueError and the stored value remains
# exit 1 = the property fails for this input on the current /repo tree; exit 0 = it holds.
import os, sys
os.environ["VF_REPLAY"] = "1"
sys.path.insert(0, "/verif")
ARGS = (-1, -1)
KWARGS = {}
HARNESS = 'from vf.prelude import *\nfrom rv.modules import MODULE_CLASSES\nfrom rv.errors import ControllerValueError, override_raise_controller_value_errors\nCLS = MODULE_CLASSES[\'MultiSynth\']\n\n\ndef h(w: int, v: int) -> bool:\n    """\n    post: _\n    """\n    mod = CLS()\n    with override_raise_controller_value_errors(False):\n        mod.transpose = w\n    before = mod.transpose\n    try:\n        mod.transpose = v\n    except ControllerValueError:\n        if -128 <= v <= 128 or mod.transpose != before:\n            return False\n    else:\n        if not (-128 <= v <= 128) or mod.transpose != v:\n            return False\n    with override_raise_controller_value_errors(False):\n        mod.random_pitch = w\n    before = mod.random_pitch\n    try:\n        mod.random_pitch = v\n    except ControllerValueError:\n        if 0 <= v <= 4096 or mod.random_pitch != before:\n            return False\n    else:\n        if not (0 <= v <= 4096) or mod.random_pitch != v:\n            return False\n    with override_raise_controller_value_errors(False):\n        mod.velocity = w\n    before = mod.velocity\n    try:\n        mod.velocity = v\n    except ControllerValueError:\n        if 0 <= v <= 256 or mod.velocity != before:\n            return False\n    else:\n        if not (0 <= v <= 256) or mod.velocity != v:\n            return False\n    with override_raise_controller_value_errors(False):\n        mod.finetune = w\n    before = mod.finetune\n    try:\n        mod.finetune = v\n    except ControllerValueError:\n        if -256 <= v <= 256 or mod.finetune != before:\n            return False\n    else:\n        if not (-256 <= v <= 256) or mod.finetune != v:\n            return False\n    with override_raise_controller_value_errors(False):\n        mod.random_phase = w\n    before = mod.random_phase\n    try:\n        mod.random_phase = v\n    except ControllerValueError:\n        if 0 <= v <= 32768 or mod.random_phase != before:\n            return False\n    else:\n        if not (0 <= v <= 32768) or mod.random_phase != v:\n            return False\n    with override_raise_controller_value_errors(False):\n        mod.random_velocity = w\n    before = mod.random_velocity\n    try:\n        mod.random_velocity = v\n    except ControllerValueError:\n        if 0 <= v <= 32768 or mod.random_velocity != before:\n            return False\n    else:\n        if not (0 <= v <= 32768) or mod.random_velocity != v:\n            return False\n    return True\n\n\ndef h__reach(w: int, v: int) -> bool:\n    """\n    post: _\n    """\n    h(w, v)\n    return False\n'
ns = {"__name__": "vf_replay"}
exec(compile(HARNESS, "<harness range.stale.MultiSynth.transpose>", "exec"), ns)
try:
    ok = ns['h'](*ARGS, **KWARGS)
except Exception as e:
    import traceback; traceback.print_exc()
    print("replay: raised", type(e).__name__, e)
    sys.exit(1)
print("replay: h(*%r, **%r) returned %r" % (ARGS, KWARGS, ok))
sys.exit(0 if ok else 1)
