#!/venv/bin/python
# Replay of a solver counterexample against the real library: no CrossHair, no stubs, real io.BytesIO.
# property C09  obligation range.ctor.FFT
# FFT, every fixed-range controller, constructor keyword: accepted iff min <= v <= max (then reads back v), otherwise ControllerValueError
# exit 1 = the property fails for this input on the current /repo tree; exit 0 = it holds.
import os, sys
os.environ["VF_REPLAY"] = "1"
sys.path.insert(0, "/verif")
ARGS = (0,)
KWARGS = {}
HARNESS = 'from vf.prelude import *\nfrom rv.modules import MODULE_CLASSES\nfrom rv.errors import ControllerValueError, override_raise_controller_value_errors\nCLS = MODULE_CLASSES[\'FFT\']\n\n\ndef h(v: int) -> bool:\n    """\n    post: _\n    """\n    try:\n        mod = CLS(feedback=v)\n    except ControllerValueError:\n        if 0 <= v <= 32768:\n            return False\n    else:\n        if not (0 <= v <= 32768) or mod.feedback != v:\n            return False\n    try:\n        mod = CLS(noise_reduction=v)\n    except ControllerValueError:\n        if 0 <= v <= 32768:\n            return False\n    else:\n        if not (0 <= v <= 32768) or mod.noise_reduction != v:\n            return False\n    try:\n        mod = CLS(phase_gain=v)\n    except ControllerValueError:\n        if 0 <= v <= 32768:\n            return False\n    else:\n        if not (0 <= v <= 32768) or mod.phase_gain != v:\n            return False\n    try:\n        mod = CLS(all_pass_filter=v)\n    except ControllerValueError:\n        if 0 <= v <= 32768:\n            return False\n    else:\n        if not (0 <= v <= 32768) or mod.all_pass_filter != v:\n            return False\n    try:\n        mod = CLS(frequency_spread=v)\n    except ControllerValueError:\n        if 0 <= v <= 32768:\n            return False\n    else:\n        if not (0 <= v <= 32768) or mod.frequency_spread != v:\n            return False\n    try:\n        mod = CLS(random_phase=v)\n    except ControllerValueError:\n        if 0 <= v <= 32768:\n            return False\n    else:\n        if not (0 <= v <= 32768) or mod.random_phase != v:\n            return False\n    try:\n        mod = CLS(random_phase_lite=v)\n    except ControllerValueError:\n        if 0 <= v <= 32768:\n            return False\n    else:\n        if not (0 <= v <= 32768) or mod.random_phase_lite != v:\n            return False\n    try:\n        mod = CLS(freq_shift=v)\n    except ControllerValueError:\n        if -4096 <= v <= 4096:\n            return False\n    else:\n        if not (-4096 <= v <= 4096) or mod.freq_shift != v:\n            return False\n    try:\n        mod = CLS(deform1=v)\n    except ControllerValueError:\n        if 0 <= v <= 32768:\n            return False\n    else:\n        if not (0 <= v <= 32768) or mod.deform1 != v:\n            return False\n    try:\n        mod = CLS(deform2=v)\n    except ControllerValueError:\n        if 0 <= v <= 32768:\n            return False\n    else:\n        if not (0 <= v <= 32768) or mod.deform2 != v:\n            return False\n    try:\n        mod = CLS(hp_cutoff=v)\n    except ControllerValueError:\n        if 0 <= v <= 32768:\n            return False\n    else:\n        if not (0 <= v <= 32768) or mod.hp_cutoff != v:\n            return False\n    try:\n        mod = CLS(lp_cutoff=v)\n    except ControllerValueError:\n        if 0 <= v <= 32768:\n            return False\n    else:\n        if not (0 <= v <= 32768) or mod.lp_cutoff != v:\n            return False\n    try:\n        mod = CLS(volume=v)\n    except ControllerValueError:\n        if 0 <= v <= 32768:\n            return False\n    else:\n        if not (0 <= v <= 32768) or mod.volume != v:\n            return False\n    return True\n\n\ndef h__reach(v: int) -> bool:\n    """\n    post: _\n    """\n    h(v)\n    return False\n'
ns = {"__name__": "vf_replay"}
exec(compile(HARNESS, "<harness range.ctor.FFT>", "exec"), ns)
try:
    ok = ns['h'](*ARGS, **KWARGS)
except Exception as e:
    import traceback; traceback.print_exc()
    print("replay: raised", type(e).__name__, e)
    sys.exit(1)
print("replay: h(*%r, **%r) returned %r" % (ARGS, KWARGS, ok))
sys.exit(0 if ok else 1)
