#!/venv/bin/python
# Replay of a solver counterexample against the real library: no CrossHair, no stubs, real io.BytesIO.
# property C19  obligation gen.2x2.free
# set_via_gen: a failure at any yield index leaves the pattern exactly as before; success installs the yielded notes, keeps untouched cells, and every note belongs to the pattern
# exit 1 = the property fails for this input on the current /repo tree; exit 0 = it holds.
import os, sys
os.environ["VF_REPLAY"] = "1"
sys.path.insert(0, "/verif")
ARGS = (0, 0, 0, 0, 0, 0, 0, 0, 0, 0, 0, 0, 4, 0)
KWARGS = {}
HARNESS = 'from vf.prelude import *\nfrom rv.errors import PatternOwnershipError\n\n\nclass Boom(Exception):\n    pass\n\n\ndef h(v0: int, c0: int, w0: int, v1: int, c1: int, w1: int, v2: int, c2: int, w2: int, v3: int, c3: int, w3: int, j: int, nv: int) -> bool:\n    """\n    pre: (0 <= v0 <= 129) and (0 <= c0 <= 65535) and (0 <= w0 <= 65535) and (0 <= v1 <= 129) and (0 <= c1 <= 65535) and (0 <= w1 <= 65535)\n    pre: (0 <= v2 <= 129) and (0 <= c2 <= 65535) and (0 <= w2 <= 65535) and (0 <= v3 <= 129) and (0 <= c3 <= 65535) and (0 <= w3 <= 65535)\n    pre: (0 <= j <= 4) and (0 <= nv <= 129)\n    post: _\n    """\n    pat = Pattern(lines=2, tracks=2)\n    pat.data[0][0].vel = v0\n    pat.data[0][0].ctl = c0\n    pat.data[0][0].val = w0\n    pat.data[0][1].vel = v1\n    pat.data[0][1].ctl = c1\n    pat.data[0][1].val = w1\n    pat.data[1][0].vel = v2\n    pat.data[1][0].ctl = c2\n    pat.data[1][0].val = w2\n    pat.data[1][1].vel = v3\n    pat.data[1][1].ctl = c3\n    pat.data[1][1].val = w3\n    proj = None\n    if False:\n        proj = Project()\n        proj.attach_pattern(pat)\n    before = pat.raw_data\n    objs = [n for line in pat.data for n in line]\n\n    cells = [(1, 0), (0, 0), (0, 1)]\n    def gen(p_, new):\n        k = 0\n        for (l, t) in cells:\n            if k == j:\n                raise Boom()\n            yield l, t, Note(vel=nv, val=k)\n            k += 1\n        if k == j:\n            raise Boom()\n    try:\n        r = pat.set_via_gen(gen)\n    except Boom:\n        if j > len(cells):\n            return False\n        now = [n for line in pat.data for n in line]\n        return pat.raw_data == before and all(a is b for a, b in zip(now, objs))\n    if j <= len(cells) or r is not pat:\n        return False\n    k = 0\n    for (l, t) in cells:\n        n = pat.data[l][t]\n        if not (n.vel == nv and n.val == k):\n            return False\n        k += 1\n    # untouched cells keep their previous content\n    for c in range(4):\n        l, t = c // 2, c % 2\n        if (l, t) not in cells and pat.data[l][t].raw_data != before[c * 8:c * 8 + 8]:\n            return False\n\n    for line in pat.data:\n        for n in line:\n            if n.pattern is not pat:\n                return False\n            if proj is not None and n.project is not proj:\n                return False\n    return True\n\n\ndef h__reach(v0: int, c0: int, w0: int, v1: int, c1: int, w1: int, v2: int, c2: int, w2: int, v3: int, c3: int, w3: int, j: int, nv: int) -> bool:\n    """\n    pre: (0 <= v0 <= 129) and (0 <= c0 <= 65535) and (0 <= w0 <= 65535) and (0 <= v1 <= 129) and (0 <= c1 <= 65535) and (0 <= w1 <= 65535)\n    pre: (0 <= v2 <= 129) and (0 <= c2 <= 65535) and (0 <= w2 <= 65535) and (0 <= v3 <= 129) and (0 <= c3 <= 65535) and (0 <= w3 <= 65535)\n    pre: (0 <= j <= 4) and (0 <= nv <= 129)\n    post: _\n    """\n    h(v0, c0, w0, v1, c1, w1, v2, c2, w2, v3, c3, w3, j, nv)\n    return False\n'
ns = {"__name__": "vf_replay"}
exec(compile(HARNESS, "<harness gen.2x2.free>", "exec"), ns)
try:
    ok = ns['h'](*ARGS, **KWARGS)
except Exception as e:
    import traceback; traceback.print_exc()
    print("replay: raised", type(e).__name__, e)
    sys.exit(1)
print("replay: h(*%r, **%r) returned %r" % (ARGS, KWARGS, ok))
sys.exit(0 if ok else 1)
