#!/venv/bin/python
# Replay of a solver counterexample against the real library: no CrossHair, no stubs, real io.BytesIO.
# property C11  obligation exclusive.MetaModule.do_not_receive_notes_from_keyboard
# MetaModule: do_not_receive_notes_from_keyboard and receive_notes_from_keyboard (declared mutually exclusive) are never both on after any three assignments, also after save/load
# exit 1 = the property fails for this input on the current /repo tree; exit 0 = it holds.
import os, sys
os.environ["VF_REPLAY"] = "1"
sys.path.insert(0, "/verif")
ARGS = (False, False, False, False, True, True)
KWARGS = {}
HARNESS = 'from vf.prelude import *\nfrom rv.modules import MODULE_CLASSES\nfrom vf import refformat as RF\n\n\ndef h(w1: bool, x1: bool, w2: bool, x2: bool, w3: bool, x3: bool) -> bool:\n    """\n    post: _\n    """\n    mod = MODULE_CLASSES[\'MetaModule\']()\n    for which, val in ((w1, x1), (w2, x2), (w3, x3)):\n        if which:\n            mod.do_not_receive_notes_from_keyboard = val\n        else:\n            mod.receive_notes_from_keyboard = val\n        if mod.do_not_receive_notes_from_keyboard and mod.receive_notes_from_keyboard:\n            return False\n    last_a = mod.do_not_receive_notes_from_keyboard\n    last_b = mod.receive_notes_from_keyboard\n    m2 = rt(Synth(mod)).module\n    return m2.do_not_receive_notes_from_keyboard == last_a and m2.receive_notes_from_keyboard == last_b and not (m2.do_not_receive_notes_from_keyboard and m2.receive_notes_from_keyboard)\n\n\ndef h__reach(w1: bool, x1: bool, w2: bool, x2: bool, w3: bool, x3: bool) -> bool:\n    """\n    post: _\n    """\n    h(w1, x1, w2, x2, w3, x3)\n    return False\n'
ns = {"__name__": "vf_replay"}
exec(compile(HARNESS, "<harness exclusive.MetaModule.do_not_receive_notes_from_keyboard>", "exec"), ns)
try:
    ok = ns['h'](*ARGS, **KWARGS)
except Exception as e:
    import traceback; traceback.print_exc()
    print("replay: raised", type(e).__name__, e)
    sys.exit(1)
print("replay: h(*%r, **%r) returned %r" % (ARGS, KWARGS, ok))
sys.exit(0 if ok else 1)
