import rv.api
from rv.api import Project, read_sunvox_file
from symio import PyFile

def proj_hdr_rt(bpm: int, tpl: int, xoff: int, tl: int) -> bool:
    """
    pre: 0 <= bpm < 2**32 and 0 <= tpl < 2**32 and -2**31 <= xoff < 2**31 and -2**31 <= tl < 2**31
    post: _
    """
    p = Project()
    p.initial_bpm = bpm
    p.initial_tpl = tpl
    p.modules_x_offset = xoff
    p.timeline_position = tl
    f = PyFile()
    p.write_to(f)
    f.seek(0)
    q = read_sunvox_file(f)
    return q.initial_bpm == bpm and q.initial_tpl == tpl and q.modules_x_offset == xoff and q.timeline_position == tl
