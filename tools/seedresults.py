#!/usr/bin/env python3
"""tools/seedresults.py <wave: c> : collect .work/seed<wave>_<ID>.log (written by tools/seedtest.sh) into
.work/seed<wave>_results.json, the input of tools/seedmeta.py.  Notes per id are read from tools/seednotes_<wave>.json if present."""
import glob, json, os, re, sys
wave = sys.argv[1] if len(sys.argv) > 1 else "c"
notes = {}
np_ = f"/verif/tools/seednotes_{wave}.json"
if os.path.exists(np_):
    notes = json.load(open(np_))
out = {}
for f in sorted(glob.glob(f"/verif/.work/seed{wave}_C??.log")):
    pid = re.search(r"_(C\d\d)\.log", f).group(1)
    txt = open(f).read()
    caught = sorted(set(f"{pid}:" + os.path.basename(m).replace(".py", "") for m in re.findall(r"^VIOLATION property=\S+ replay=(\S+)", txt, re.M)))
    summ = [l for l in txt.splitlines() if "obligations=" in l]
    res = re.sub(r"^\[\w+\] ", "", summ[-1]) if summ else "no summary line"
    out[pid] = {"ran": f"SEEDPFX=mut{wave} tools/seedtest.sh {pid} quick: patch applied to /repo, ./check {pid} --tier quick (seed 0), undone afterwards; result: {res}",
                "caught_by": caught, "notes": notes.get(pid, "")}
json.dump(out, open(f"/verif/.work/seed{wave}_results.json", "w"), indent=1)
for k, v in out.items():
    print(k, len(v["caught_by"]), v["caught_by"][:3])
