#!/venv/bin/python
# Replay of a solver counterexample against the real library: no CrossHair, no stubs, real io.BytesIO.
# property C20  obligation L2.seeded.g300.b243
# gain + curve stage, curve 'seeded', gain 300, bucket 243 (points 30860 -> 30895): the interpolated value lies between the two curve points and is monotone inside the bucket, for every input whose bucket is 243
# exit 1 = the property fails for this input on the current /repo tree; exit 0 = it holds.
import os, sys
os.environ["VF_REPLAY"] = "1"
sys.path.insert(0, "/verif")
ARGS = ()
KWARGS = {'model': {'v': 26536, 'fp.to_sbv': '[else -> fp.to_sbv(Var(0), Var(1))]'}}
HARNESS = 'from vf.prelude import *\nfrom rv.modules.multictl import convert_value\n\nP = [300, 32768, 0, 32768, 0, 32768, None]\nCURVE = [16, 120, 211, 245, 420, 470, 509, 552, 653, 662, 1346, 1416, 1615, 1674, 1830, 1925, 1974, 2012, 2180, 2323, 2657, 2698, 3031, 3263, 3434, 3535, 3734, 3791, 3946, 4355, 4462, 4609, 4617, 4621, 4797, 5106, 5147, 5295, 5332, 5541, 5548, 5587, 5668, 5677, 5967, 6065, 6501, 6686, 6722, 6901, 6911, 7118, 7350, 7365, 7501, 7612, 7745, 7898, 7918, 7954, 8073, 8080, 8207, 8468, 8530, 8652, 8666, 8809, 9031, 9144, 9219, 9298, 9324, 9343, 9359, 9390, 9628, 9666, 9700, 10084, 10233, 10238, 10250, 10293, 10718, 11026, 11362, 11451, 11659, 12054, 12061, 12149, 12154, 12239, 12243, 12254, 12530, 12847, 12857, 13345, 13368, 13386, 13421, 13630, 13639, 13688, 13780, 14137, 14287, 14334, 14428, 14602, 14856, 15105, 15228, 15260, 15274, 15337, 15509, 15914, 16250, 16256, 16321, 16553, 16554, 16814, 16922, 17202, 17699, 17716, 18151, 18259, 18355, 18530, 18572, 18640, 18869, 18985, 19074, 19153, 19171, 19177, 19219, 19222, 19315, 19421, 19498, 19531, 19566, 19592, 19620, 19672, 19736, 20028, 20169, 20702, 20714, 20856, 21015, 21266, 21429, 21639, 21672, 21955, 22275, 22307, 22573, 22639, 22798, 22883, 23101, 23138, 23188, 23203, 23236, 23289, 23291, 23544, 23676, 23739, 23829, 23973, 24191, 24199, 24352, 24366, 24409, 24669, 24680, 24997, 25174, 25450, 25485, 25528, 25622, 25808, 25894, 25967, 26111, 26134, 26294, 26438, 26562, 26779, 26922, 26963, 27186, 27204, 27208, 27312, 27329, 27343, 27511, 27540, 27636, 27637, 27668, 27800, 28002, 28220, 28251, 28292, 28443, 28525, 28788, 28920, 28990, 29096, 29106, 29136, 29151, 29239, 29276, 29313, 29431, 29717, 29756, 29792, 30034, 30205, 30278, 30306, 30667, 30860, 30895, 30902, 30976, 31022, 31240, 31242, 31672, 32037, 32240, 32290, 32474, 32546, 32615]\n\n\ndef h(model=None):\n    a = convert_value(*P, model["v"], CURVE)\n    print("convert_value%r value=%d -> %d" % (tuple(P), model["v"], a))\n    if "v2" in model:\n        b = convert_value(*P, model["v2"], CURVE)\n        print("value=%d -> %d" % (model["v2"], b))\n        return not (model["v"] <= model["v2"] and (1 >= 0 and a > b or 1 < 0 and a < b))\n    return 30860 <= a <= 30895\n\n\ndef scan():\n    """whole input domain of the real function (used when the solver\'s model is a stage value)"""\n    prev = None\n    for c in range(0, 32769):\n        a = convert_value(*P, c, CURVE)\n        if not (30860 <= a <= 30895):\n            print("value=%d -> %d outside [30860, 30895]" % (c, a))\n            return False\n        if prev is not None and ((1 >= 0 and prev > a) or (1 < 0 and prev < a)):\n            print("value=%d -> %d but value=%d -> %d" % (c - 1, prev, c, a))\n            return False\n        prev = a\n    return True\n'
ns = {"__name__": "vf_replay"}
exec(compile(HARNESS, "<harness L2.seeded.g300.b243>", "exec"), ns)
try:
    ok = ns['h'](*ARGS, **KWARGS)
except Exception as e:
    import traceback; traceback.print_exc()
    print("replay: raised", type(e).__name__, e)
    sys.exit(1)
print("replay: h(*%r, **%r) returned %r" % (ARGS, KWARGS, ok))
sys.exit(0 if ok else 1)
