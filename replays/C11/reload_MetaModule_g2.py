#!/venv/bin/python
# Replay of a solver counterexample against the real library: no CrossHair, no stubs, real io.BytesIO.
# property C11  obligation reload.MetaModule.g2
# MetaModule: options ['dummy5', 'dummy6', 'dummy7'] changed on a module that was loaded from a file (record with other bits set): save/load and clone() show the new values, the others keep theirs
# exit 1 = the property fails for this input on the current /repo tree; exit 0 = it holds.
import os, sys
os.environ["VF_REPLAY"] = "1"
sys.path.insert(0, "/verif")
ARGS = (False, False, False)
KWARGS = {}
HARNESS = 'from vf.prelude import *\nfrom rv.modules import MODULE_CLASSES\nfrom vf import refformat as RF\n\n\ndef h(o_dummy5: bool, o_dummy6: bool, o_dummy7: bool) -> bool:\n    """\n    post: _\n    """\n    src = MODULE_CLASSES[\'MetaModule\']()\n    src.arpeggiator = False\n    src.apply_velocity_to_project = True\n    src.event_output = True\n    src.receive_notes_from_keyboard = True\n    src.do_not_receive_notes_from_keyboard = True\n    src.auto_bpm_tpl = True\n    src.ignore_eff_31_after_last_note_off = False\n    src.jump_to_rl_pattern_after_last_note_off = True\n    src.dummy5 = True\n    src.dummy6 = True\n    src.dummy7 = True\n    mod = rt(Synth(src)).module\n    mod.dummy5 = o_dummy5\n    mod.dummy6 = o_dummy6\n    mod.dummy7 = o_dummy7\n    e_user_defined_controllers = mod.user_defined_controllers\n    e_arpeggiator = mod.arpeggiator\n    e_apply_velocity_to_project = mod.apply_velocity_to_project\n    e_event_output = mod.event_output\n    e_receive_notes_from_keyboard = mod.receive_notes_from_keyboard\n    e_do_not_receive_notes_from_keyboard = mod.do_not_receive_notes_from_keyboard\n    e_auto_bpm_tpl = mod.auto_bpm_tpl\n    e_ignore_eff_31_after_last_note_off = mod.ignore_eff_31_after_last_note_off\n    e_jump_to_rl_pattern_after_last_note_off = mod.jump_to_rl_pattern_after_last_note_off\n    e_dummy5 = mod.dummy5\n    e_dummy6 = mod.dummy6\n    e_dummy7 = mod.dummy7\n    m2 = rt(Synth(mod)).module\n    m3 = mod.clone()\n    return m2.user_defined_controllers == e_user_defined_controllers and m2.arpeggiator == e_arpeggiator and m2.apply_velocity_to_project == e_apply_velocity_to_project and m2.event_output == e_event_output and m2.receive_notes_from_keyboard == e_receive_notes_from_keyboard and m2.do_not_receive_notes_from_keyboard == e_do_not_receive_notes_from_keyboard and m2.auto_bpm_tpl == e_auto_bpm_tpl and m2.ignore_eff_31_after_last_note_off == e_ignore_eff_31_after_last_note_off and m2.jump_to_rl_pattern_after_last_note_off == e_jump_to_rl_pattern_after_last_note_off and m2.dummy5 == e_dummy5 and m2.dummy6 == e_dummy6 and m2.dummy7 == e_dummy7 and m3.user_defined_controllers == e_user_defined_controllers and m3.arpeggiator == e_arpeggiator and m3.apply_velocity_to_project == e_apply_velocity_to_project and m3.event_output == e_event_output and m3.receive_notes_from_keyboard == e_receive_notes_from_keyboard and m3.do_not_receive_notes_from_keyboard == e_do_not_receive_notes_from_keyboard and m3.auto_bpm_tpl == e_auto_bpm_tpl and m3.ignore_eff_31_after_last_note_off == e_ignore_eff_31_after_last_note_off and m3.jump_to_rl_pattern_after_last_note_off == e_jump_to_rl_pattern_after_last_note_off and m3.dummy5 == e_dummy5 and m3.dummy6 == e_dummy6 and m3.dummy7 == e_dummy7\n\n\ndef h__reach(o_dummy5: bool, o_dummy6: bool, o_dummy7: bool) -> bool:\n    """\n    post: _\n    """\n    h(o_dummy5, o_dummy6, o_dummy7)\n    return False\n'
ns = {"__name__": "vf_replay"}
exec(compile(HARNESS, "<harness reload.MetaModule.g2>", "exec"), ns)
try:
    ok = ns['h'](*ARGS, **KWARGS)
except Exception as e:
    import traceback; traceback.print_exc()
    print("replay: raised", type(e).__name__, e)
    sys.exit(1)
print("replay: h(*%r, **%r) returned %r" % (ARGS, KWARGS, ok))
sys.exit(0 if ok else 1)
