import rv.api
import chplug, logging; logging.disable(logging.CRITICAL)
from rv.api import Project, read_sunvox_file, m, Synth
from symio import PyFile
import rv.modules.sampler, rv.container, rv.modules.metamodule
rv.modules.sampler.BytesIO = PyFile
rv.container.BytesIO = PyFile
rv.modules.metamodule.BytesIO = PyFile

def opts_rt(udc: int, arp: bool, ev: bool, rk: bool, dk: bool) -> bool:
    """
    pre: 0 <= udc <= 96
    post: _
    """
    mm = m.MetaModule()
    mm.user_defined_controllers = udc
    mm.arpeggiator = arp
    mm.event_output = ev
    mm.receive_notes_from_keyboard = rk
    mm.do_not_receive_notes_from_keyboard = dk
    f = PyFile()
    Synth(mm).write_to(f)
    f.seek(0)
    m2 = read_sunvox_file(f).module
    return (m2.user_defined_controllers == udc and m2.arpeggiator == arp and m2.event_output == ev
            and m2.receive_notes_from_keyboard == mm.receive_notes_from_keyboard
            and m2.do_not_receive_notes_from_keyboard == dk
            and not (m2.receive_notes_from_keyboard and m2.do_not_receive_notes_from_keyboard))

def sampler_rt(d0: int, d1: int, vol: int, fin: int, pan: int, rel: int, ls: int, ll: int, ec: int, y1: int) -> bool:
    """
    pre: 0 <= d0 < 256 and 0 <= d1 < 256 and 0 <= vol < 256 and -128 <= fin < 128 and -128 <= pan < 128 and -128 <= rel < 128
    pre: 0 <= ls < 2**32 and 0 <= ll < 2**32 and -2**31 <= ec < 2**31 and 0 <= y1 <= 0x8000
    post: _
    """
    s = m.Sampler()
    smp = s.Sample()
    smp.data = bytes([d0, d1]); smp.format = s.Format.int8; smp.channels = s.Channels.mono
    smp.volume = vol; smp.finetune = fin; smp.panning = pan; smp.relative_note = rel
    smp.loop_start = ls; smp.loop_len = ll
    s.samples[3] = smp
    s.editor_cursor = ec
    s.volume_envelope.points = [(0, y1), (5, 0)]
    s.note_samples[rv.api.NOTE.C4] = 3
    f = PyFile()
    Synth(s).write_to(f)
    f.seek(0)
    t = read_sunvox_file(f).module
    u = t.samples[3]
    return (u is not None and u.data == smp.data and u.volume == vol and u.finetune == fin and u.panning == pan
            and u.relative_note == rel and u.loop_start == ls and u.loop_len == ll and t.editor_cursor == ec
            and t.volume_envelope.points == [(0, y1), (5, 0)] and t.note_samples[rv.api.NOTE.C4] == 3
            and t.samples[0] is None)
