"""C18 — loading restores global strictness and releases files on every exit path."""
import glob
import os
import random

from vf.harness import B, R, U8, U32, Ob, build

EXPLANATION = (
    "C18: the real read_sunvox_file runs on a FaultFile (pure-Python file whose k-th read raises, or from whose k-th read on every read returns b'' = "
    "truncation at that point) with the fault index k SYMBOLIC over 1..R+1 (R = number of read calls the loader makes on that file, measured on the "
    "current tree) and the initial value of the process-wide strictness flag SYMBOLIC.  Asserted on every path: after the call returns or raises, the "
    "flag equals its initial value, and when the input was given as a path the file the library opened is closed.  Nested loads (embedded project, "
    "sampler effect) get their own symbolic fault index.  Malformed data: one chunk length field symbolic over u32."
)
BOUNDS = {"quick": {"files": "8 fixtures: empty.sunvox, a MetaModule synth, amplifier + 5 seeded fixtures <= 560 bytes; fault modes raise (OSError) and eof (truncation); non-Exception interruption (cancel) on the 3-4 named fixtures", "k": "1..R+1 (complete for each file, in segments of 40/100)",
                    "malformed": "length field of every chunk of one small synth, drawn by a symbolic selector from 8-9 boundary values (0, 1, true-1, true+1, true+8, rest of file, rest+1, 2^31-1, 2^32-1)"},
          "thorough": {"files": "all fixtures <= 3 KB (48 files), both modes, path and file-object input", "k": "complete", "malformed": "as quick"}}
OUTSIDE = ["a chunk length field symbolic over the whole u32 range (every later file offset becomes symbolic and the run does not finish; boundary values are selected symbolically instead)", "fixtures larger than 3 KB (vorbis-player, issue files): R grows with the file and every k is a path", "faults in seek()/tell() (the loader's rewind): only read() faults are injected",
           "two faults in one load"]
ASSUMPTIONS = ["a fault is an exception raised by read() (InjectedFault, an OSError; or Cancelled, a BaseException outside Exception) or a short read; the loader may answer with any exception"]

FIX = "/repo/tests/files"

SETUP = '''import rv.errors
import rv.readers.reader as _reader
import rv.modules.metamodule as _mm
import rv.modules.sampler as _smp


import builtins as _bi
import io as _io
import pathlib as _pl
from vf.symio import Cancelled as _Cancelled

FAULT_NAME = "vf_fault_injected_file.sunvox"
_CURRENT = {"f": None, "opened": 0}


def _is_fault(name):
    try:
        return str(name).endswith(FAULT_NAME)
    except Exception:
        return False


def _open_hook(orig):
    def opener(name, *a, **kw):
        if _is_fault(name):
            _CURRENT["opened"] += 1
            return _CURRENT["f"]
        return orig(name, *a, **kw)
    return opener


def _path_open(self, *a, **kw):
    if _is_fault(self):
        _CURRENT["opened"] += 1
        return _CURRENT["f"]
    return _ORIG_PATH_OPEN(self, *a, **kw)


_ORIG_PATH_OPEN = _pl.Path.open


def run(data, k, init, mode, by_path, nested_k=None, use_str=True):
    """-> True iff flag restored (and file closed when opened by the library)"""
    f = FaultFile(data, k, mode)
    _CURRENT["f"] = f
    _CURRENT["opened"] = 0
    old_mm, old_smp = _mm.BytesIO, _smp.BytesIO
    old_open, old_ioopen = _bi.open, _io.open
    # however the library opens a path (pathlib, builtins.open, io.open), the prepared file is what it gets
    _pl.Path.open = _path_open
    _bi.open = _open_hook(old_open)
    _io.open = _open_hook(old_ioopen)
    if nested_k is not None:
        mk = lambda d=b"": FaultFile(d, nested_k, mode)
        _mm.BytesIO = mk
        _smp.BytesIO = mk
    rv.errors.RAISE_CONTROLLER_VALUE_ERRORS = init
    try:
        try:
            if by_path:
                read_sunvox_file(("dir/" + FAULT_NAME) if use_str else _pl.Path("dir") / FAULT_NAME)
            else:
                read_sunvox_file(f)
        except Exception:
            pass
        except _Cancelled:
            pass
        ok = rv.errors.RAISE_CONTROLLER_VALUE_ERRORS is init
        if by_path and (_CURRENT["opened"] != 1 or not f.closed):
            ok = False   # the library must have opened the path exactly once and closed what it opened
        if not by_path and f.closed:
            ok = False   # a file object handed in by the caller is the caller's to close
    finally:
        rv.errors.RAISE_CONTROLLER_VALUE_ERRORS = True
        _mm.BytesIO, _smp.BytesIO = old_mm, old_smp
        _pl.Path.open, _bi.open, _io.open = _ORIG_PATH_OPEN, old_open, old_ioopen
    return ok
'''


def count_reads(path):
    import sys
    sys.path.insert(0, "/verif")
    import rv.api
    from rv.api import read_sunvox_file
    from vf.symio import FaultFile
    data = open(path, "rb").read()
    f = FaultFile(data, 10**9, "raise")
    try:
        read_sunvox_file(f)
    except Exception:
        pass
    return f.nreads, data


def obligations(tier, seed):
    rnd = random.Random(seed)
    obs = []
    files = sorted(glob.glob(FIX + "/*.sunsynth") + glob.glob(FIX + "/*.sunvox"))
    files = [f for f in files if os.path.getsize(f) <= 3000]
    if tier == "quick":
        small = [f for f in files if os.path.getsize(f) <= 560]
        must = [f for f in files if os.path.basename(f) in ("empty.sunvox", "metamodule-option-78.sunsynth", "amplifier.sunsynth")]
        pick = must + rnd.sample([f for f in small if f not in must], 5)
    else:
        pick = files
    for path in pick:
        R_, data = count_reads(path)
        name = os.path.basename(path).replace(".", "_").replace("-", "_")
        is_must = os.path.basename(path) in ("empty.sunvox", "metamodule-option-78.sunsynth", "amplifier.sunsynth", "metamodule.sunsynth")
        for mode in ("raise", "eof", "cancel") if is_must else ("raise", "eof"):
            seg = (100 if R_ <= 100 else 50) if mode == "eof" else 40
            for by_path in ((True,) if (tier == "quick" and mode == "eof") or mode == "cancel" else (True, False)):
                for lo in range(1, R_ + 2, seg):
                    hi = min(R_ + 1, lo + seg - 1)
                    body = f"""
    return run(DATA, k, init, {mode!r}, {by_path})
"""
                    obs.append(Ob(f"{mode}.{'path' if by_path else 'file'}.{name}.k{lo}", build([R("k", lo, hi), B("init")], body, setup=SETUP + f"DATA = {data!r}\n"),
                                  f"{os.path.basename(path)}: whatever read call fails ({'an OSError' if mode == 'raise' else 'an interruption that is not an Exception: the KeyboardInterrupt/SystemExit/GeneratorExit family' if mode == 'cancel' else 'short read / truncation'}), the strictness flag is what it was before the load"
                                  + (" and the file opened from the path is closed" if by_path else " and the caller's file object is left open"),
                                  group=mode, shape=f"{os.path.basename(path)} ({len(data)} bytes, {R_} read calls), input given as {'path' if by_path else 'file object'}",
                                  symbolic=f"fault index k over {lo}..{hi} (segments cover 1..{R_ + 1}), initial flag value", timeout=300))
    # files that do not start like a SunVox file (first byte(s) arbitrary, or shorter than a chunk header), given as a path
    R0, data0 = count_reads(FIX + "/amplifier.sunsynth")
    for cut in (0, 1, 2, 3):
        body = f"""
    data = bytes([b0, b1, b2])[:{cut}]
    return run(data, 10**9, init, "raise", True, use_str=as_str)
"""
        obs.append(Ob(f"header.cut{cut}", build([U8("b0"), U8("b1"), U8("b2"), B("init"), B("as_str")], body, setup=SETUP),
                      f"a file of {cut} arbitrary bytes (shorter than a chunk id), given as str or Path: flag restored, the opened file closed", group="malformed",
                      shape=f"{cut}-byte file", symbolic="the bytes, initial flag, str-or-Path", timeout=240))
    heads = [b"RIFF", b"SVOX", b"SSYN", b"XSYN", b"SSYM", b"\0\0\0\0", b"svox"]
    for cut in (4, 7, 8, 12, len(data0)):
        body = f"""
    hd = None
    for i_ in range(len(HEADS)):
        if sel == i_:
            hd = HEADS[i_]
    data = hd + DATA[4:{cut}]
    return run(data, 10**9, init, "raise", True, use_str=as_str)
"""
        obs.append(Ob(f"header.magic{cut}", build([R("sel", 0, len(heads) - 1), B("init"), B("as_str")], body, setup=SETUP + f"DATA = {data0!r}\nHEADS = {heads!r}\n"),
                      f"a {cut}-byte file starting with one of {len(heads)} magic values (foreign, wrong-case, right ones), given as str or Path: flag restored, the opened file closed", group="malformed",
                      shape=f"amplifier.sunsynth cut to {cut} bytes with its first chunk id replaced", symbolic="which magic (symbolic selector), initial flag, str-or-Path", timeout=240))
    # nested loads: embedded project of a MetaModule, effect of a Sampler
    nested = [FIX + "/metamodule.sunsynth"] if tier == "quick" else [FIX + "/metamodule.sunsynth", FIX + "/metamodule-option-79.sunsynth", FIX + "/sampler.sunsynth"]
    for path in nested:
        R_, data = count_reads(path)
        name = os.path.basename(path).replace(".", "_").replace("-", "_")
        for mode in ("raise", "eof"):
            for lo in range(1, 121, 30):
                body = f"""
    return run(DATA, 10**9, init, {mode!r}, True, nested_k=k2)
"""
                obs.append(Ob(f"nested.{mode}.{name}.k{lo}", build([R("k2", lo, lo + 29), B("init")], body, setup=SETUP + f"DATA = {data!r}\n"),
                              f"{os.path.basename(path)}: a fault at any read of the NESTED load (embedded project / effect) leaves the flag as it was and the outer file closed",
                              group="nested", shape=f"{os.path.basename(path)}; outer file intact, inner file faults ({mode})", symbolic=f"inner fault index {lo}..{lo + 29}, initial flag", timeout=400))
    # malformed data: one chunk length field symbolic
    from vf import refformat as RF
    base = RF.enc_synth("Amplifier", flags=0x51, cvals=[256, 128, 128, 0, 128, 0, 32768, 1, 16384])
    chunks = RF.walk(base)
    offs = []
    o = 0
    for cid, pl in chunks:
        offs.append(o + 4)
        o += 8 + len(pl)
    sel = list(enumerate(offs))
    for i, off in sel:
        true_len = len(chunks[i][1])
        remaining = len(base) - off - 4
        choices = sorted({0, 1, max(0, true_len - 1), true_len + 1, true_len + 8, remaining, remaining + 1, 0x7FFFFFFF, 0xFFFFFFFF} - {true_len})
        body = f"""
    ln = None
    for i_ in range(len(CHOICES)):
        if sel == i_:
            ln = CHOICES[i_]     # forked: ln is concrete on every path
    data = list(BASE)
    data[{off}:{off + 4}] = list(int.to_bytes(ln, 4, "little"))
    return run(bytes(data), 10**9, init, "raise", True)
"""
        obs.append(Ob(f"length.{i}", build([R("sel", 0, len(choices) - 1), B("init")], body, setup=SETUP + f"BASE = {bytes(base)!r}\nCHOICES = {choices!r}\n"),
                      f"a reference-encoded synth whose chunk #{i} ({chunks[i][0].decode()}) carries a wrong length (boundary values {choices}): flag restored, file closed",
                      group="malformed", shape=f"Amplifier synth ({len(base)} bytes), length field at offset {off} (true length {true_len})",
                      symbolic="which of the boundary lengths (symbolic selector), initial flag", timeout=120))
    return obs
