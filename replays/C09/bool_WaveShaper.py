#!/venv/bin/python
# Replay of a solver counterexample against the real library: no CrossHair, no stubs, real io.BytesIO.
# property C09  obligation bool.WaveShaper
# WaveShaper: every boolean controller reads back the assigned boolean (assignment and constructor)
# exit 1 = the property fails for this input on the current /repo tree; exit 0 = it holds.
import os, sys
os.environ["VF_REPLAY"] = "1"
sys.path.insert(0, "/verif")
ARGS = (False,)
KWARGS = {}
HARNESS = 'from vf.prelude import *\nfrom rv.modules import MODULE_CLASSES\nfrom rv.errors import ControllerValueError, override_raise_controller_value_errors\nCLS = MODULE_CLASSES[\'WaveShaper\']\n\n\ndef h(b: bool) -> bool:\n    """\n    post: _\n    """\n    mod = CLS()\n    mod.symmetric = b\n    got = mod.symmetric\n    if (got is not True and got is not False) or got != b:\n        return False\n    if CLS(symmetric=b).symmetric != b:\n        return False\n    mod.dc_blocker = b\n    got = mod.dc_blocker\n    if (got is not True and got is not False) or got != b:\n        return False\n    if CLS(dc_blocker=b).dc_blocker != b:\n        return False\n    return True\n\n\ndef h__reach(b: bool) -> bool:\n    """\n    post: _\n    """\n    h(b)\n    return False\n'
ns = {"__name__": "vf_replay"}
exec(compile(HARNESS, "<harness bool.WaveShaper>", "exec"), ns)
try:
    ok = ns['h'](*ARGS, **KWARGS)
except Exception as e:
    import traceback; traceback.print_exc()
    print("replay: raised", type(e).__name__, e)
    sys.exit(1)
print("replay: h(*%r, **%r) returned %r" % (ARGS, KWARGS, ok))
sys.exit(0 if ok else 1)
