"""Reference semantic model of every module type, built ONLY from specs/fileformat.yaml (never
from rv): controllers (order, kind, bounds, enum tables, defaults, unit tables) and options
(byte, bit, size, default, inversion, exclusivity, bounds, number, options chunk number)."""
from __future__ import annotations

import os
from functools import lru_cache

import yaml

YAML_PATH = "/repo/specs/fileformat.yaml"


def mangle(ekey: str) -> str:
    """identifier for a spec enum key (rule as documented for the generator: / -> _div_, * -> _mul_,
    . -> _, + -> _plus_, - -> _neg_, ^ -> _pow_, leading digit gets '_', leading '_' dropped,
    runs of '_' collapsed, lower-cased)"""
    for a, b in (("/", "_div_"), ("*", "_mul_"), (".", "_"), ("+", "_plus_"), ("-", "_neg_"), ("^", "_pow_")):
        ekey = ekey.replace(a, b)
    if ekey[0].isdigit():
        ekey = "_" + ekey
    elif ekey[0] == "_":
        ekey = ekey[1:]
    while "__" in ekey:
        ekey = ekey.replace("__", "_")
    return ekey.lower()


@lru_cache(maxsize=1)
def load():
    with open(YAML_PATH) as f:
        y = yaml.safe_load(f)
    out = {}
    for cname, mt in y["module_types"].items():
        enums = {en: {mangle(str(k)): v for k, v in tbl.items()} for en, tbl in (mt.get("enums") or {}).items()}
        ctls = []
        for entry in mt.get("controllers") or []:
            for name, d in entry.items():
                if name == "in":
                    name = "in_"
                c = {"name": name, "attached": d.get("attached", True)}
                if "min" in d and "max" in d:
                    c.update(kind="compact" if d.get("compact") else "nooffset" if d.get("no_offset") else "range", min=d["min"], max=d["max"], default=d["default"])
                elif "enum" in d:
                    c.update(kind="enum", enum=d["enum"], members=enums[d["enum"]], default=mangle(str(d["default"])))
                elif "bool" in d:
                    c.update(kind="bool", default=bool(d["default"]))
                elif "depends_on" in d:
                    c.update(kind="dep", depends_on=d["depends_on"], default=d["default"],
                             ranges={mangle(str(k)): (r["min"], r["max"]) for k, r in d["ranges"].items()})
                else:
                    c.update(kind="unknown")
                ctls.append(c)
        opts = []
        for entry in mt.get("options") or []:
            for name, d in entry.items():
                o = {"name": name, "byte": d["byte"], "bit": d["bit"], "size": d["size"], "number": d.get("number"),
                     "min": d.get("min"), "max": d.get("max"), "inverted": bool(d.get("inverted", False)),
                     "exclusive_of": list(d.get("exclusive_of") or []), "enum": d.get("enum")}
                dv = d.get("default")
                if d.get("enum"):
                    dv = enums[d["enum"]][mangle(str(dv))]
                o["default"] = dv
                opts.append(o)
        out[mt.get("type") or cname] = {
            "class_name": cname, "mtype": mt.get("type") or cname, "group": mt.get("group"), "flags": mt.get("defaultFlags") or 0,
            "enums": enums, "controllers": ctls, "options": opts, "options_chnm": mt.get("options_chnm", 0),
        }
    return out


def raw_of(c, v, unit=None):
    """documented stored value of controller value v (C10's wording)"""
    if c["kind"] in ("range", "compact"):
        return v - c["min"] if c["min"] < 0 else v
    if c["kind"] == "dep":
        lo = c["ranges"][unit][0]
        return v - lo if lo < 0 else v
    return v
