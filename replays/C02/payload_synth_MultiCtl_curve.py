#!/venv/bin/python
# Replay of a solver counterexample against the real library: no CrossHair, no stubs, real io.BytesIO.
# property C02  obligation payload.synth.MultiCtl.curve
# MultiCtl.curve (257 elements) survives synth round trip element by element
# exit 1 = the property fails for this input on the current /repo tree; exit 0 = it holds.
import os, sys
os.environ["VF_REPLAY"] = "1"
sys.path.insert(0, "/verif")
ARGS = (0, 0, 0, 0, 0, 0, 0, 0, 1)
KWARGS = {}
HARNESS = 'from vf.prelude import *\nfrom rv.modules import MODULE_CLASSES\nfrom vf.invariants import *\n\n\ndef h(e0: int, e1: int, e96: int, e127: int, e128: int, e175: int, e255: int, e256: int, again: int) -> bool:\n    """\n    pre: (0 <= e0 <= 65535) and (0 <= e1 <= 65535) and (0 <= e96 <= 65535) and (0 <= e127 <= 65535) and (0 <= e128 <= 65535) and (0 <= e175 <= 65535)\n    pre: (0 <= e255 <= 65535) and (0 <= e256 <= 65535) and (0 <= again <= 65535)\n    post: _\n    """\n    mod = MODULE_CLASSES[\'MultiCtl\']()\n    mod.curve.values[0] = e0\n    mod.curve.values[1] = e1\n    mod.curve.values[96] = e96\n    mod.curve.values[127] = e127\n    mod.curve.values[128] = e128\n    mod.curve.values[175] = e175\n    mod.curve.values[255] = e255\n    mod.curve.values[256] = e256\n    s1 = snap_module(mod, groups=("type", "payload"))\n    m2 = rt(Synth(mod)).module\n    if not same(s1, snap_module(m2, groups=("type", "payload"))):\n        return False\n    # the module has been serialised once; an in-place edit afterwards must be what the next save writes\n    mod.curve.values[128] = again\n    s3 = snap_module(mod, groups=("type", "payload"))\n    m4 = rt(Synth(mod)).module\n    return same(s3, snap_module(m4, groups=("type", "payload"))) and m4.curve.values[128] == again\n\n\ndef h__reach(e0: int, e1: int, e96: int, e127: int, e128: int, e175: int, e255: int, e256: int, again: int) -> bool:\n    """\n    pre: (0 <= e0 <= 65535) and (0 <= e1 <= 65535) and (0 <= e96 <= 65535) and (0 <= e127 <= 65535) and (0 <= e128 <= 65535) and (0 <= e175 <= 65535)\n    pre: (0 <= e255 <= 65535) and (0 <= e256 <= 65535) and (0 <= again <= 65535)\n    post: _\n    """\n    h(e0, e1, e96, e127, e128, e175, e255, e256, again)\n    return False\n'
ns = {"__name__": "vf_replay"}
exec(compile(HARNESS, "<harness payload.synth.MultiCtl.curve>", "exec"), ns)
try:
    ok = ns['h'](*ARGS, **KWARGS)
except Exception as e:
    import traceback; traceback.print_exc()
    print("replay: raised", type(e).__name__, e)
    sys.exit(1)
print("replay: h(*%r, **%r) returned %r" % (ARGS, KWARGS, ok))
sys.exit(0 if ok else 1)
