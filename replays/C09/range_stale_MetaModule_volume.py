#!/venv/bin/python
# Replay of a solver counterexample against the real library: no CrossHair, no stubs, real io.BytesIO.
# property C09  obligation range.stale.MetaModule.volume
# MetaModule, controllers ['volume', 'input_module', 'bpm', 'tpl']: whatever integer w the module already stores (leniently stored values may be out of range), a strict assignment of v is accepted iff min <= v <= max, otherwise ControllerValueError and the stored value remains
# exit 1 = the property fails for this input on the current /repo tree; exit 0 = it holds.
import os, sys
os.environ["VF_REPLAY"] = "1"
sys.path.insert(0, "/verif")
ARGS = (125, 125)
KWARGS = {}
HARNESS = 'from vf.prelude import *\nfrom rv.modules import MODULE_CLASSES\nfrom rv.errors import ControllerValueError, override_raise_controller_value_errors\nCLS = MODULE_CLASSES[\'MetaModule\']\n\n\ndef h(w: int, v: int) -> bool:\n    """\n    post: _\n    """\n    mod = CLS()\n    with override_raise_controller_value_errors(False):\n        mod.volume = w\n    before = mod.volume\n    try:\n        mod.volume = v\n    except ControllerValueError:\n        if 0 <= v <= 1024 or mod.volume != before:\n            return False\n    else:\n        if not (0 <= v <= 1024) or mod.volume != v:\n            return False\n    with override_raise_controller_value_errors(False):\n        mod.input_module = w\n    before = mod.input_module\n    try:\n        mod.input_module = v\n    except ControllerValueError:\n        if 1 <= v <= 256 or mod.input_module != before:\n            return False\n    else:\n        if not (1 <= v <= 256) or mod.input_module != v:\n            return False\n    with override_raise_controller_value_errors(False):\n        mod.bpm = w\n    before = mod.bpm\n    try:\n        mod.bpm = v\n    except ControllerValueError:\n        if 1 <= v <= 1000 or mod.bpm != before:\n            return False\n    else:\n        if not (1 <= v <= 1000) or mod.bpm != v:\n            return False\n    with override_raise_controller_value_errors(False):\n        mod.tpl = w\n    before = mod.tpl\n    try:\n        mod.tpl = v\n    except ControllerValueError:\n        if 1 <= v <= 31 or mod.tpl != before:\n            return False\n    else:\n        if not (1 <= v <= 31) or mod.tpl != v:\n            return False\n    return True\n\n\ndef h__reach(w: int, v: int) -> bool:\n    """\n    post: _\n    """\n    h(w, v)\n    return False\n'
ns = {"__name__": "vf_replay"}
exec(compile(HARNESS, "<harness range.stale.MetaModule.volume>", "exec"), ns)
try:
    ok = ns['h'](*ARGS, **KWARGS)
except Exception as e:
    import traceback; traceback.print_exc()
    print("replay: raised", type(e).__name__, e)
    sys.exit(1)
print("replay: h(*%r, **%r) returned %r" % (ARGS, KWARGS, ok))
sys.exit(0 if ok else 1)
