#!/venv/bin/python
# Replay of a solver counterexample against the real library: no CrossHair, no stubs, real io.BytesIO.
# property C05  obligation metamodule.synth.n3
# a MetaModule synth with 3 user-defined controllers mapped onto range / negative-minimum / boolean / enum / compact targets: fixed point after one load/save cycle
# exit 1 = the property fails for this input on the current /repo tree; exit 0 = it holds.
import os, sys
os.environ["VF_REPLAY"] = "1"
sys.path.insert(0, "/verif")
ARGS = (0, -128, 0, 0, 0, 0)
KWARGS = {}
HARNESS = 'from vf.prelude import *\nfrom rv.modules import MODULE_CLASSES\nfrom vf import refformat as RF\nfrom vf.invariants import *\n\n\ndef cycle(X):\n    """-> (ok, reason)   Y = save(load(X)); Y\' = save(load(Y)); purity of save"""\n    try:\n        a = load_bytes(X)\n    except Exception:\n        return True   # X is not loadable: outside the property (e.g. a stored enum value that is no member)\n    s0 = snap_any(a)\n    Y = save_bytes(a)\n    s1 = snap_any(a)\n    Y_again = save_bytes(a)\n    if not same(s0, s1) or Y != Y_again:\n        return False\n    b = load_bytes(Y)\n    Y2 = save_bytes(b)\n    return Y == Y2\n\n\ndef snap_any(o):\n    if hasattr(o, "modules"):\n        return snap_project(o)\n    return snap_module(o.module)\n\nMM = MODULE_CLASSES["MetaModule"]\nAMP = MODULE_CLASSES["Amplifier"]\nGEN = MODULE_CLASSES["Generator"]\nMS = MODULE_CLASSES["MultiSynth"]\nG = ("type", "common_synth", "midi", "ctl", "opt", "cmid", "payload")\n\n\ndef h(vol: int, bal: int, tr: int, bdc: int, bpm: int, nv: int) -> bool:\n    """\n    pre: (0 <= vol <= 1024) and (-128 <= bal <= 128) and (-128 <= tr <= 128) and (-16384 <= bdc <= 16384) and (0 <= bpm <= 4294967295) and (0 <= nv <= 65535)\n    post: _\n    """\n    mm = MM()\n    mm_a = mm.project.new_module(AMP)\n    mm_g = mm.project.new_module(GEN)\n    mm_s = mm.project.new_module(MS)\n    mm_a.volume = vol\n    mm_a.balance = bal\n    mm_s.transpose = tr\n    mm_a.bipolar_dc_offset = bdc\n    mm_a.inverse = False\n    mm_g.waveform = GEN.controllers[\'waveform\'].value_type(0)\n    mm.project.initial_bpm = bpm\n    mm_a >> mm.project.output\n    mm_pat = Pattern(lines=1, tracks=1)\n    mm.project.attach_pattern(mm_pat)\n    mm_pat.data[0][0].val = nv\n    mm.user_defined_controllers = 3\n    mm.mappings.values[0] = MM.Mapping((1, 0))\n    mm.mappings.values[1] = MM.Mapping((1, 1))\n    mm.mappings.values[2] = MM.Mapping((1, 3))\n    mm.update_user_defined_controllers()\n    X = save_bytes(Synth(mm))\n    return cycle(X)\n\n\ndef h__reach(vol: int, bal: int, tr: int, bdc: int, bpm: int, nv: int) -> bool:\n    """\n    pre: (0 <= vol <= 1024) and (-128 <= bal <= 128) and (-128 <= tr <= 128) and (-16384 <= bdc <= 16384) and (0 <= bpm <= 4294967295) and (0 <= nv <= 65535)\n    post: _\n    """\n    h(vol, bal, tr, bdc, bpm, nv)\n    return False\n'
ns = {"__name__": "vf_replay"}
exec(compile(HARNESS, "<harness metamodule.synth.n3>", "exec"), ns)
try:
    ok = ns['h'](*ARGS, **KWARGS)
except Exception as e:
    import traceback; traceback.print_exc()
    print("replay: raised", type(e).__name__, e)
    sys.exit(1)
print("replay: h(*%r, **%r) returned %r" % (ARGS, KWARGS, ok))
sys.exit(0 if ok else 1)
