#!/venv/bin/python
# Replay of a solver counterexample against the real library: no CrossHair, no stubs, real io.BytesIO.
# property C09  obligation range.stale.Input.volume
# Input, controllers ['volume']: whatever integer w the module already stores (leniently stored values may be out of range), a strict assignment of v is accepted iff min <= v <= max, otherwise ControllerValueError and the stored value remains
# exit 1 = the property fails for this input on the current /repo tree; exit 0 = it holds.
import os, sys
os.environ["VF_REPLAY"] = "1"
sys.path.insert(0, "/verif")
ARGS = (1025, 1025)
KWARGS = {}
HARNESS = 'from vf.prelude import *\nfrom rv.modules import MODULE_CLASSES\nfrom rv.errors import ControllerValueError, override_raise_controller_value_errors\nCLS = MODULE_CLASSES[\'Input\']\n\n\ndef h(w: int, v: int) -> bool:\n    """\n    post: _\n    """\n    mod = CLS()\n    with override_raise_controller_value_errors(False):\n        mod.volume = w\n    before = mod.volume\n    try:\n        mod.volume = v\n    except ControllerValueError:\n        if 0 <= v <= 1024 or mod.volume != before:\n            return False\n    else:\n        if not (0 <= v <= 1024) or mod.volume != v:\n            return False\n    return True\n\n\ndef h__reach(w: int, v: int) -> bool:\n    """\n    post: _\n    """\n    h(w, v)\n    return False\n'
ns = {"__name__": "vf_replay"}
exec(compile(HARNESS, "<harness range.stale.Input.volume>", "exec"), ns)
try:
    ok = ns['h'](*ARGS, **KWARGS)
except Exception as e:
    import traceback; traceback.print_exc()
    print("replay: raised", type(e).__name__, e)
    sys.exit(1)
print("replay: h(*%r, **%r) returned %r" % (ARGS, KWARGS, ok))
sys.exit(0 if ok else 1)
