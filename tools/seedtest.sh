#!/bin/bash
# tools/seedtest.sh <ID> [tier] [extra check args]: confirm a sub-agent's seeded change in its scratch worktree, then run
# ./check <ID> against /repo with the change applied, and undo it straight afterwards.
ID=$1; TIER=${2:-quick}; shift; shift
WT=/tmp/${SEEDPFX:-mut}_$ID
cd $WT || exit 9
echo "== patch applies to a clean /repo checkout?"
git -C /repo apply --check $WT/patch.diff && echo yes || { echo NO; exit 9; }
echo "== demo WITH change (worktree):"; PYTHONPATH=$WT/src/python /venv/bin/python demo_$ID.py > /tmp/demo_with_$ID.log 2>&1; echo "exit $?"; tail -3 /tmp/demo_with_$ID.log
echo "== test suite WITH change:"; PYTHONPATH=$WT/src/python /venv/bin/python -m pytest -q -p no:cacheprovider --timeout=900 --continue-on-collection-errors tests/python 2>&1 | tail -1
echo "== demo WITHOUT change (/repo HEAD):"; (cd /repo && PYTHONPATH=/repo/src/python /venv/bin/python $WT/demo_$ID.py > /tmp/demo_without_$ID.log 2>&1; echo "exit $?"; tail -2 /tmp/demo_without_$ID.log)
echo "== ./check $ID --tier $TIER with the change applied to /repo"
git -C /repo apply $WT/patch.diff
(cd /verif && ./check $ID --tier $TIER "$@" 2>&1 | grep -v "^  " | cut -c1-300 | tail -12)
git -C /repo checkout -- .
git -C /repo status --short | head -3
