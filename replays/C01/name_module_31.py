#!/venv/bin/python
# Replay of a solver counterexample against the real library: no CrossHair, no stubs, real io.BytesIO.
# property C01  obligation name.module.31
# a module name survives up to the documented limit (longest prefix whose UTF-8 form fits 32 bytes) and the written file loads
# exit 1 = the property fails for this input on the current /repo tree; exit 0 = it holds.
import os, sys
os.environ["VF_REPLAY"] = "1"
sys.path.insert(0, "/verif")
ARGS = (65536, 57344)
KWARGS = {}
HARNESS = 'from vf.prelude import *\nfrom rv.modules import MODULE_CLASSES\nfrom vf.invariants import *\n\ndef fit32(s):\n    out = ""\n    n = 0\n    for ch in s:\n        k = len(ch.encode("utf8"))\n        if n + k > 32:\n            break\n        out += ch\n        n += k\n    return out\n\n\ndef h(c1: int, c2: int) -> bool:\n    """\n    pre: ((1 <= c1 <= 0xD7FF or 0xE000 <= c1 <= 0x10FFFF)) and ((1 <= c2 <= 0xD7FF or 0xE000 <= c2 <= 0x10FFFF))\n    post: _\n    """\n    name = \'aaaaaaaaaaaaaaaaaaaaaaaaaaaaaaa\' + chr(c1) + \'z\' * (1 + c2 % 2)\n    p = Project()\n    a = p.new_module(MODULE_CLASSES["Amplifier"], name=name)\n    q = rt(p)\n    return q.modules[1].name == fit32(name) and len(q.modules) == 2\n\n\ndef h__reach(c1: int, c2: int) -> bool:\n    """\n    pre: ((1 <= c1 <= 0xD7FF or 0xE000 <= c1 <= 0x10FFFF)) and ((1 <= c2 <= 0xD7FF or 0xE000 <= c2 <= 0x10FFFF))\n    post: _\n    """\n    h(c1, c2)\n    return False\n'
ns = {"__name__": "vf_replay"}
exec(compile(HARNESS, "<harness name.module.31>", "exec"), ns)
try:
    ok = ns['h'](*ARGS, **KWARGS)
except Exception as e:
    import traceback; traceback.print_exc()
    print("replay: raised", type(e).__name__, e)
    sys.exit(1)
print("replay: h(*%r, **%r) returned %r" % (ARGS, KWARGS, ok))
sys.exit(0 if ok else 1)
