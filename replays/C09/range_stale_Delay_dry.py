#!/venv/bin/python
# Replay of a solver counterexample against the real library: no CrossHair, no stubs, real io.BytesIO.
# property C09  obligation range.stale.Delay.dry
# Delay, controllers ['dry', 'wet', 'volume_l', 'volume_r', 'delay_multiplier', 'feedback']: whatever integer w the module already stores (leniently stored values may be out of range), a strict assignment of v is accepted iff min <= v <= max, otherwise ControllerValueError and the stored value remains
# exit 1 = the property fails for this input on the current /repo tree; exit 0 = it holds.
import os, sys
os.environ["VF_REPLAY"] = "1"
sys.path.insert(0, "/verif")
ARGS = (16, 16)
KWARGS = {}
HARNESS = 'from vf.prelude import *\nfrom rv.modules import MODULE_CLASSES\nfrom rv.errors import ControllerValueError, override_raise_controller_value_errors\nCLS = MODULE_CLASSES[\'Delay\']\n\n\ndef h(w: int, v: int) -> bool:\n    """\n    post: _\n    """\n    mod = CLS()\n    with override_raise_controller_value_errors(False):\n        mod.dry = w\n    before = mod.dry\n    try:\n        mod.dry = v\n    except ControllerValueError:\n        if 0 <= v <= 512 or mod.dry != before:\n            return False\n    else:\n        if not (0 <= v <= 512) or mod.dry != v:\n            return False\n    with override_raise_controller_value_errors(False):\n        mod.wet = w\n    before = mod.wet\n    try:\n        mod.wet = v\n    except ControllerValueError:\n        if 0 <= v <= 512 or mod.wet != before:\n            return False\n    else:\n        if not (0 <= v <= 512) or mod.wet != v:\n            return False\n    with override_raise_controller_value_errors(False):\n        mod.volume_l = w\n    before = mod.volume_l\n    try:\n        mod.volume_l = v\n    except ControllerValueError:\n        if 0 <= v <= 256 or mod.volume_l != before:\n            return False\n    else:\n        if not (0 <= v <= 256) or mod.volume_l != v:\n            return False\n    with override_raise_controller_value_errors(False):\n        mod.volume_r = w\n    before = mod.volume_r\n    try:\n        mod.volume_r = v\n    except ControllerValueError:\n        if 0 <= v <= 256 or mod.volume_r != before:\n            return False\n    else:\n        if not (0 <= v <= 256) or mod.volume_r != v:\n            return False\n    with override_raise_controller_value_errors(False):\n        mod.delay_multiplier = w\n    before = mod.delay_multiplier\n    try:\n        mod.delay_multiplier = v\n    except ControllerValueError:\n        if 1 <= v <= 15 or mod.delay_multiplier != before:\n            return False\n    else:\n        if not (1 <= v <= 15) or mod.delay_multiplier != v:\n            return False\n    with override_raise_controller_value_errors(False):\n        mod.feedback = w\n    before = mod.feedback\n    try:\n        mod.feedback = v\n    except ControllerValueError:\n        if 0 <= v <= 32768 or mod.feedback != before:\n            return False\n    else:\n        if not (0 <= v <= 32768) or mod.feedback != v:\n            return False\n    return True\n\n\ndef h__reach(w: int, v: int) -> bool:\n    """\n    post: _\n    """\n    h(w, v)\n    return False\n'
ns = {"__name__": "vf_replay"}
exec(compile(HARNESS, "<harness range.stale.Delay.dry>", "exec"), ns)
try:
    ok = ns['h'](*ARGS, **KWARGS)
except Exception as e:
    import traceback; traceback.print_exc()
    print("replay: raised", type(e).__name__, e)
    sys.exit(1)
print("replay: h(*%r, **%r) returned %r" % (ARGS, KWARGS, ok))
sys.exit(0 if ok else 1)
