#!/venv/bin/python
# Replay of a solver counterexample against the real library: no CrossHair, no stubs, real io.BytesIO.
# property C04  obligation reorder.versions
# VERS and BVER in either order, at the start or at the end of the header: each version field has the value its own chunk denotes
# exit 1 = the property fails for this input on the current /repo tree; exit 0 = it holds.
import os, sys
os.environ["VF_REPLAY"] = "1"
sys.path.insert(0, "/verif")
ARGS = (2, 2, 0, 0, 0, 0, 0, 0, 0, 0)
KWARGS = {}
HARNESS = 'from vf.prelude import *\nfrom rv.modules import MODULE_CLASSES\nfrom vf import refformat as RF\nfrom vf.invariants import *\n\n\ndef snap_any(o):\n    if hasattr(o, "modules"):\n        return snap_project(o)\n    return [("synth_version", tuple(o.loaded_sunsynth_version))] + snap_module(o.module)\n\n\ndef pick(seq, sel):\n    """seq[sel] for a symbolic selector, as a forked linear search (concrete on every path)"""\n    for i in range(len(seq)):\n        if sel == i:\n            return i\n    return len(seq) - 1\n\n\ndef h(order: int, v0: int, v1: int, v2: int, v3: int, b0: int, b1: int, b2: int, b3: int, a: int) -> bool:\n    """\n    pre: (0 <= order <= 3) and (0 <= v0 <= 255) and (0 <= v1 <= 255) and (0 <= v2 <= 255) and (0 <= v3 <= 255) and (0 <= b0 <= 255)\n    pre: (0 <= b1 <= 255) and (0 <= b2 <= 255) and (0 <= b3 <= 255) and (0 <= a <= 4294967295)\n    post: _\n    """\n    hdr = RF.enc_project_header(version=(v0, v1, v2, v3), based_on_version=(b0, b1, b2, b3), initial_bpm=a)\n    assert bytes(hdr[1][:4]) == b"VERS" and bytes(hdr[2][:4]) == b"BVER"\n    if order == 1:\n        hdr = [hdr[0], hdr[2], hdr[1]] + hdr[3:]\n    elif order == 2:\n        hdr = [hdr[0]] + hdr[3:] + [hdr[2], hdr[1]]\n    elif order == 3:\n        hdr = [hdr[0]] + hdr[3:] + [hdr[1], hdr[2]]\n    p = load_bytes(RF.enc_project(header=hdr, modules=[RF.enc_output()]))\n    return tuple(p.loaded_sunvox_version) == (v0, v1, v2, v3) and tuple(p.based_on_version) == (b0, b1, b2, b3) and p.initial_bpm == a\n\n\ndef h__reach(order: int, v0: int, v1: int, v2: int, v3: int, b0: int, b1: int, b2: int, b3: int, a: int) -> bool:\n    """\n    pre: (0 <= order <= 3) and (0 <= v0 <= 255) and (0 <= v1 <= 255) and (0 <= v2 <= 255) and (0 <= v3 <= 255) and (0 <= b0 <= 255)\n    pre: (0 <= b1 <= 255) and (0 <= b2 <= 255) and (0 <= b3 <= 255) and (0 <= a <= 4294967295)\n    post: _\n    """\n    h(order, v0, v1, v2, v3, b0, b1, b2, b3, a)\n    return False\n'
ns = {"__name__": "vf_replay"}
exec(compile(HARNESS, "<harness reorder.versions>", "exec"), ns)
try:
    ok = ns['h'](*ARGS, **KWARGS)
except Exception as e:
    import traceback; traceback.print_exc()
    print("replay: raised", type(e).__name__, e)
    sys.exit(1)
print("replay: h(*%r, **%r) returned %r" % (ARGS, KWARGS, ok))
sys.exit(0 if ok else 1)
