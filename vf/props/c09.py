"""C09 — controller assignment enforces declared domains; defaults match the spec."""
import random

from vf import spec
from vf.harness import B, INT, Ob, build

EXPLANATION = (
    "C09: for every module type one harness per controller kind assigns ONE symbolic value v ranging over all mathematical integers "
    "(no width bound) to every controller of that kind in turn, through attribute assignment, through the constructor keyword and in "
    "lenient mode; the accept/reject rule and the defaults come from specs/fileformat.yaml (vf/spec.py), not from rv."
)
BOUNDS = {"quick": {"value": "all integers (unbounded), all booleans, every enum member by name; by value for <= 4 seeded enum controllers per type (all in thorough)", "types": "all 43 types, every controller the YAML lists", "pre-state": "fresh module; and (range.stale.*) a module already storing ANY integer w, stored leniently, for 6 seeded controllers per type (all in thorough)"},
          "thorough": {"value": "as quick", "types": "as quick", "pre-state": "all range controllers"}}
OUTSIDE = ["non-integer values (floats, strings other than enum member names)", "MetaModule user-defined controllers (C15)"]
ASSUMPTIONS = ["the YAML specification is the source of truth for ranges, members and defaults"]

SETUP = """from rv.modules import MODULE_CLASSES
from rv.errors import ControllerValueError, override_raise_controller_value_errors
"""


def obligations(tier, seed):
    S = spec.load()
    obs = []
    for mt, sp in S.items():
        ranges = [(c["name"], c["min"], c["max"], c["default"]) for c in sp["controllers"] if c["kind"] in ("range", "compact", "nooffset")]
        enums = [(c["name"], sorted(c["members"].values()), c["members"][c["default"]], sorted(c["members"].items())) for c in sp["controllers"] if c["kind"] == "enum"]
        bools = [(c["name"], c["default"]) for c in sp["controllers"] if c["kind"] == "bool"]
        deps = [(c["name"], c["depends_on"], c["default"], sorted(c["ranges"].items())) for c in sp["controllers"] if c["kind"] == "dep"]
        head = f"CLS = MODULE_CLASSES[{mt!r}]\n"
        # ---- defaults (concrete side-condition) ------------------------------------------
        dsrc = "from vf.prelude import *\n" + SETUP + head + f'''
RANGES = {ranges!r}
ENUMS = {[(n, d) for n, _, d, _ in enums]!r}
BOOLS = {bools!r}
DEPS = {[(n, d) for n, _, d, _ in deps]!r}


def h():
    mod = CLS()
    ok = True
    for name, lo, hi, dflt in RANGES:
        if getattr(mod, name) != dflt:
            print("default of", name, "is", getattr(mod, name), "spec says", dflt)
            ok = False
    for name, dflt in ENUMS:
        if getattr(mod, name).value != dflt:
            print("default of", name, "is", getattr(mod, name), "spec says", dflt)
            ok = False
    for name, dflt in BOOLS + DEPS:
        if getattr(mod, name) != dflt:
            print("default of", name, "is", getattr(mod, name), "spec says", dflt)
            ok = False
    return ok
'''
        obs.append(Ob(f"defaults.{mt}", dsrc, f"a fresh {mt} reports the YAML default for every controller", engine="C", group="defaults", shape=f"{mt}()"))
        # ---- fixed ranges -----------------------------------------------------------------
        # (code is unrolled per controller: the builtin setattr()/getattr() run the descriptor
        #  outside CrossHair's tracing, which would realise v)
        if ranges:
            for mode in ("set", "ctor", "lenient"):
                rr = ranges
                if mode == "ctor" and len(ranges) > 24:
                    rnd = random.Random(seed)
                    rr = rnd.sample(ranges, 24) if tier == "quick" else ranges
                parts = []
                for name, lo, hi, dflt in rr:
                    if mode == "set":
                        parts.append(f"""
    before = mod.{name}
    try:
        mod.{name} = v
    except ControllerValueError:
        if {lo} <= v <= {hi} or mod.{name} != before:
            return False
    else:
        if not ({lo} <= v <= {hi}) or mod.{name} != v:
            return False""")
                    elif mode == "ctor":
                        parts.append(f"""
    try:
        mod = CLS({name}=v)
    except ControllerValueError:
        if {lo} <= v <= {hi}:
            return False
    else:
        if not ({lo} <= v <= {hi}) or mod.{name} != v:
            return False""")
                    else:
                        parts.append(f"""
        mod.{name} = v
        if {lo} <= v <= {hi} and mod.{name} != v:
            return False""")
                if mode == "set":
                    body = "    mod = CLS()" + "".join(parts) + "\n    return True\n"
                    desc = "attribute assignment: accepted iff min <= v <= max (then reads back v), otherwise ControllerValueError and the previous value remains"
                elif mode == "ctor":
                    body = "".join(parts)[1:] + "\n    return True\n"
                    desc = "constructor keyword: accepted iff min <= v <= max (then reads back v), otherwise ControllerValueError"
                else:
                    body = "    import rv.errors\n    mod = CLS()\n    with override_raise_controller_value_errors(False):" + "".join(parts) + "\n    return rv.errors.RAISE_CONTROLLER_VALUE_ERRORS is True\n"
                    desc = "lenient mode: no exception for any v, in-range values read back exactly, strict mode restored afterwards"
                obs.append(Ob(f"range.{mode}.{mt}", build([INT("v")], body, setup=SETUP + head),
                              f"{mt}, every fixed-range controller, {desc}", group="range", shape=f"{mt}: {len(rr)} range controllers, bounds from the YAML: " + ", ".join(f"{n}[{lo},{hi}]" for n, lo, hi, _ in rr[:40]),
                              symbolic="v over all integers (unbounded)", timeout=240))
            # strict assignment from an ARBITRARY stored state: the module already holds any integer w (in range or not -- lenient
            # assignments and loaded files store out-of-range values), then v is assigned in strict mode
            chunks = [ranges[i:i + 6] for i in range(0, len(ranges), 6)]
            if tier == "quick":
                chunks = [random.Random(seed * 77 + len(obs)).choice(chunks)]
            for chunk in chunks:
                parts = []
                for name, lo, hi, dflt in chunk:
                    parts.append(f"""
    with override_raise_controller_value_errors(False):
        mod.{name} = w
    before = mod.{name}
    try:
        mod.{name} = v
    except ControllerValueError:
        if {lo} <= v <= {hi} or mod.{name} != before:
            return False
    else:
        if not ({lo} <= v <= {hi}) or mod.{name} != v:
            return False""")
                body = "    mod = CLS()" + "".join(parts) + "\n    return True\n"
                obs.append(Ob(f"range.stale.{mt}.{chunk[0][0]}", build([INT("w"), INT("v")], body, setup=SETUP + head),
                              f"{mt}, controllers {[c_[0] for c_ in chunk]}: whatever integer w the module already stores (leniently stored values may be out of range), a strict "
                              "assignment of v is accepted iff min <= v <= max, otherwise ControllerValueError and the stored value remains",
                              group="range", shape=f"{mt}: {len(chunk)} range controllers", symbolic="stored w and assigned v over all integers (unbounded)", timeout=240))
        # ---- enums ------------------------------------------------------------------------
        if enums:
            parts = []
            for name, values, dflt, table in enums:
                parts.append(f"""
    before = mod.{name}
    try:
        mod.{name} = e
    except Exception:
        if e in {values!r} or mod.{name} is not before:
            return False
    else:
        got = mod.{name}
        if e not in {values!r} or got.value != e or type(got) is not CLS.controllers[{name!r}].value_type:
            return False""")
            starts = list(range(0, len(parts), 2))
            if tier == "quick" and len(starts) > 2:
                rq = random.Random(seed * 1000 + len(obs))
                starts = [0] + rq.sample(starts[1:], 1)
            for ci in starts:
                body = "    mod = CLS()" + "".join(parts[ci:ci + 2]) + "\n    return True\n"
                obs.append(Ob(f"enum.value.{mt}.{ci // 2}", build([INT("e")], body, setup=SETUP + head),
                              f"{mt}, enum controllers {[x[0] for x in enums[ci:ci + 2]]}: an integer is accepted iff it is a member value in the YAML table (then reads back that member); otherwise an exception and the previous value remains",
                              group="enum", shape=f"{mt}: {len(enums[ci:ci + 2])} enum controllers", symbolic="e over all integers (unbounded)", timeout=300))
            nsrc = "from vf.prelude import *\n" + SETUP + head + f'''
ENUMS = {enums!r}


def h():
    mod = CLS()
    for name, values, dflt, table in ENUMS:
        for mname, mval in table:
            setattr(mod, name, mname)
            got = getattr(mod, name)
            if got.value != mval or got.name != mname:
                print(name, mname, "->", got)
                return False
        before = getattr(mod, name)
        try:
            setattr(mod, name, "no_such_member_name")
        except Exception:
            if getattr(mod, name) is not before:
                return False
        else:
            return False
        members = sorted((x.name, x.value) for x in CLS.controllers[name].value_type)
        if members != sorted(table):
            print(name, "member table differs from the YAML:", members, table)
            return False
    return True
'''
            obs.append(Ob(f"enum.name.{mt}", nsrc, f"{mt}: every enum member name of the YAML is accepted and reads back that member; an unknown name is rejected and changes nothing",
                          engine="C", group="enum", shape=f"{mt}: all member names (finite, enumerated)"))
        # ---- bools ------------------------------------------------------------------------
        if bools:
            parts = []
            for name, dflt in bools:
                parts.append(f"""
    mod.{name} = b
    got = mod.{name}
    if (got is not True and got is not False) or got != b:
        return False
    if CLS({name}=b).{name} != b:
        return False""")
            body = "    mod = CLS()" + "".join(parts) + "\n    return True\n"
            obs.append(Ob(f"bool.{mt}", build([B("b")], body, setup=SETUP + head), f"{mt}: every boolean controller reads back the assigned boolean (assignment and constructor)",
                          group="bool", shape=f"{mt}: {len(bools)} boolean controllers", symbolic="b: bool", timeout=120))
        # ---- unit-dependent (warn-only) ranges ----------------------------------------------
        if deps:
            parts = []
            for name, unit_ctl, dflt, rngs in deps:
                for uname, (lo, hi) in rngs:
                    parts.append(f"""
    mod = CLS()
    mod.{unit_ctl} = CLS.controllers[{unit_ctl!r}].value_type[{uname!r}]
    mod.{name} = v
    if mod.{name} != v:
        return False
    t = CLS.controllers[{name!r}].instance_value_type(mod)
    if (t.min, t.max) != ({lo}, {hi}):
        return False""")
            body = "".join(parts)[1:] + "\n    return True\n"
            obs.append(Ob(f"dep.{mt}", build([INT("v")], body, setup=SETUP + head),
                          f"{mt}: unit-dependent controllers accept every integer under every unit (warn-only ranges) and read it back; the range table per unit equals the YAML's",
                          group="dep", shape=f"{mt}: {len(deps)} unit-dependent controllers x every unit member", symbolic="v over all integers (unbounded)", timeout=240))
    # "in the default strict mode": also after the library has loaded files, including ones with nested loads
    import glob
    for fx in ("amplifier.sunsynth", "metamodule.sunsynth", "sampler.sunsynth", "empty.sunvox"):
        data = open("/repo/tests/files/" + fx, "rb").read()
        body = """
    load_bytes(DATA)
    mod = MODULE_CLASSES["Amplifier"]()
    try:
        mod.volume = v
    except ControllerValueError:
        return not (0 <= v <= 1024) and mod.volume == 256
    return 0 <= v <= 1024 and mod.volume == v
"""
        obs.append(Ob(f"strict.after_load.{fx.split('.')[0]}", build([INT("v")], body, setup=SETUP + f"DATA = {data!r}\n"),
                      f"after loading {fx} the default strict mode still applies: out-of-range assignments are rejected, in-range ones read back", group="strict",
                      shape=f"load {fx}, then Amplifier().volume = v", symbolic="v over all integers", timeout=240))
    return obs
