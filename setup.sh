#!/bin/bash
# Build the overlay venv /verif/.venv on top of /venv (which holds the editable install of
# /repo), adding crosshair-tool, z3-solver, cvc5 and jsonschema from the offline wheelhouse.
# Idempotent; run by MANIFEST.setup_cmd and, if .venv is missing, by ./check itself.
set -euo pipefail
cd "$(dirname "$0")"
V=/verif/.venv
if [ -x "$V/bin/python" ] && "$V/bin/python" -c "import crosshair, z3, cvc5, rv, jsonschema" 2>/dev/null; then
    exit 0
fi
exec 9>/verif/.venv.lock
flock 9
if [ -x "$V/bin/python" ] && "$V/bin/python" -c "import crosshair, z3, cvc5, rv, jsonschema" 2>/dev/null; then
    exit 0
fi
rm -rf "$V"
/venv/bin/python -m venv "$V"
SP=$("$V/bin/python" -c "import sysconfig; print(sysconfig.get_paths()['purelib'])")
# /venv's site-packages (pytest, attrs, logutils, networkx, yaml, the editable rv install)
echo "import site; site.addsitedir('/venv/lib/python3.12/site-packages')" > "$SP/zz_overlay.pth"
PIP_NO_INDEX=1 "$V/bin/pip" install -q --no-index --find-links /opt/veriftools/wheels \
    crosshair-tool z3-solver cvc5 jsonschema
"$V/bin/python" -c "import crosshair, z3, cvc5, rv, jsonschema; print('overlay ok', z3.get_version_string())"
