"""C12 — note cells and packed bit-fields are lossless; sub-field setters independent."""
import random

from vf.harness import B, I32, R, U8, U16, U32, Ob, build

EXPLANATION = (
    "C12: note encode/decode over the whole note domain, pattern byte images of valid cells through the real "
    "Pattern.raw_data setter/getter and through a saved+loaded project, and one (old word, sub-field, new value) "
    "obligation per packed sub-field with the old word symbolic over its full width."
)
BOUNDS = {
    "quick": {"pattern_shapes": "1x1, 1x2, 2x1, 2x2 (lines x tracks)", "note domain": "every NOTECMD member, vel 0..129, module/ctl/val 0..65535 (complete)",
              "packed words": "old word: 16 bit (note ctl/val), 32 bit (visualization, SMII, SFGS); new sub-field value: its full documented domain"},
    "thorough": {"pattern_shapes": "all lines x tracks <= 3x3", "note domain": "complete", "packed words": "complete"},
}
OUTSIDE = ["patterns larger than the listed shapes (the slicing arithmetic is the same code, but it is not executed for them)",
           "sub-field values outside the sub-field's documented domain (e.g. Note.controller = 300)"]
ASSUMPTIONS = ["a visualization word's enumerated parts hold defined members (level_mode 0..4, oscilloscope_mode 0..7), as the property states"]


def _notecmd_pre(var):
    from rv.note import NOTECMD
    vals = sorted(c.value for c in NOTECMD)
    # compress into ranges
    rs = []
    for v in vals:
        if rs and rs[-1][1] == v - 1:
            rs[-1][1] = v
        else:
            rs.append([v, v])
    return "(" + " or ".join(f"{a} <= {var} <= {b}" if a != b else f"{var} == {a}" for a, b in rs) + ")"


def _valid_notes():
    from rv.note import NOTECMD
    return sorted(c.value for c in NOTECMD)


def obligations(tier, seed):
    rnd = random.Random(seed)
    obs = []
    # ---- 1. note encode/decode ------------------------------------------------------------
    obs.append(Ob(
        "note.rt",
        build([("n", "int", _notecmd_pre("n")), R("vel", 0, 129), U16("mod"), U16("ctl"), U16("val")], """
            a = Note(note=NOTECMD(n), vel=vel, module=mod, ctl=ctl, val=val)
            raw = a.raw_data
            if len(raw) != 8:
                return False
            # documented layout: note u8, vel u8, module u16le, ctl u16le, val u16le
            if not (raw[0] == n and raw[1] == vel and raw[2] + 256 * raw[3] == mod and raw[4] + 256 * raw[5] == ctl and raw[6] + 256 * raw[7] == val):
                return False
            b = Note()
            b.raw_data = raw
            return b.note == a.note and b.vel == vel and b.module == mod and b.ctl == ctl and b.val == val and b.raw_data == raw
            """),
        "Note(...).raw_data is 8 bytes in the documented layout and decodes to an equal note",
        group="note", shape="one note", symbolic="note: every NOTECMD member; vel 0..129; module, ctl, val 0..65535", timeout=240))
    obs.append(Ob(
        "note.clone",
        build([R("vel", 0, 129), U16("mod"), U16("ctl"), U16("val")], """
            a = Note(note=NOTECMD.C4, vel=vel, module=mod, ctl=ctl, val=val)
            b = a.clone()
            return b.raw_data == a.raw_data and b is not a
            """),
        "Note.clone() yields an equal, distinct note", group="note", shape="one note", symbolic="vel, module, ctl, val full domain", timeout=60))

    # ---- 2. pattern byte images ------------------------------------------------------------
    shapes = [(1, 1), (1, 2), (2, 1), (2, 2)] if tier == "quick" else [(l, t) for l in (1, 2, 3) for t in (1, 2, 3)]
    valid = _valid_notes()
    for (L, T) in shapes:
        ncell = L * T
        sym_cell = rnd.randrange(ncell)
        for via in ("direct", "file"):
            params = []
            exprs = []
            for c in range(ncell):
                if c == sym_cell:
                    params.append((f"n{c}", "int", _notecmd_pre(f"n{c}")))
                    nexpr = f"n{c}"
                else:
                    nexpr = str(rnd.choice(valid))
                params.append(R(f"v{c}", 0, 129))
                bs = [f"c{c}b{k}" for k in range(6)]
                params += [U8(b) for b in bs]
                exprs += [nexpr, f"v{c}"] + bs
            img = "bytes([" + ", ".join(exprs) + "])"
            if via == "direct":
                body = f"""
                    img = {img}
                    p = Pattern(lines={L}, tracks={T})
                    p.raw_data = img
                    if p.raw_data != img:
                        return False
                    # row-major: cell (l, t) is bytes [(l*T+t)*8, +8)
                    for l in range({L}):
                        for t in range({T}):
                            o = (l * {T} + t) * 8
                            if p.data[l][t].raw_data != img[o:o + 8]:
                                return False
                    return True
                    """
                desc = f"Pattern {L}x{T}: raw_data setter then getter returns the same byte image, cells in row-major order"
            else:
                body = f"""
                    img = {img}
                    proj = Project()
                    p = Pattern(lines={L}, tracks={T})
                    p.raw_data = img
                    proj.attach_pattern(p)
                    q = rt(proj)
                    p2 = q.patterns[0]
                    if not (p2.lines == {L} and p2.tracks == {T} and p2.raw_data == img):
                        return False
                    return save_bytes(q) == save_bytes(proj)
                    """
                desc = f"Pattern {L}x{T} inside a project: byte image survives save/load and re-save is byte-identical"
            obs.append(Ob(f"pattern.{via}.{L}x{T}", build(params, body), desc, group="pattern", shape=f"{L} lines x {T} tracks",
                          symbolic=f"every byte of every cell (note byte of cell {sym_cell} over all NOTECMD members, the other note bytes concrete members; vel 0..129; 6 bytes 0..255 each)",
                          timeout=180 if via == "file" else 120))

    # ---- 3. sub-field setters ----------------------------------------------------------------
    for word, hi, lo in (("ctl", "controller", "effect"), ("val", "val_xx", "val_yy")):
        for sub, other in ((hi, lo), (lo, hi)):
            obs.append(Ob(
                f"note.setter.{sub}",
                build([U16("old"), U8("new"), U16("oth")], f"""
                    n = Note({word}=old, {'val' if word == 'ctl' else 'ctl'}=oth)
                    keep = n.{other}
                    n.{sub} = new
                    return n.{sub} == new and n.{other} == keep and n.{'val' if word == 'ctl' else 'ctl'} == oth and 0 <= n.{word} <= 0xFFFF
                    """),
                f"Note.{sub} = v: reads back v, leaves Note.{other} and the other word unchanged, for every old 16-bit word",
                group="note.setter", shape=f"Note.{word}", symbolic="old word 0..65535, new sub-field value 0..255, other word 0..65535", timeout=90))
    # set twice (the sub-field already holds a value set through the setter)
    for word, hi, lo in (("ctl", "controller", "effect"), ("val", "val_xx", "val_yy")):
        obs.append(Ob(
            f"note.setter.twice.{word}",
            build([U8("a"), U8("b"), U8("c")], f"""
                n = Note()
                n.{hi} = a
                n.{lo} = c
                n.{hi} = b
                if not (n.{hi} == b and n.{lo} == c):
                    return False
                n.{lo} = a
                return n.{hi} == b and n.{lo} == a
                """),
            f"setting Note.{hi}/{lo} a second time replaces the first value and keeps the sibling", group="note.setter", shape="Note()",
            symbolic="three 8-bit values", timeout=120))

    vis_fields = [  # name, enum, lo, hi, shift, bits
        ("level_mode", "LevelMode", 0, 4, 0, 5), ("orientation", "Orientation", 0, 1, 5, 1), ("oscilloscope_mode", "OscilloscopeMode", 0, 7, 8, 5),
        ("oscilloscope_size", None, 0, 255, 16, 8), ("bg_transparency", None, 0, 3, 24, 2), ("shadow_opacity", None, 0, 3, 26, 2),
    ]
    setup = "from rv.modules.module import Visualization, LevelMode, Orientation, OscilloscopeMode"
    for name, enum, lo, hi, sh, nb in vis_fields:
        # The old word is written as  w = low + 2^sh * f + 2^(sh+nb) * high  with low, f, high
        # symbolic over their full widths: a bijection with all 32-bit words (z3 decides the
        # div/mod reasoning in this form in < 1 s; with one opaque 32-bit variable it times out).
        # The word after the assignment must be the old word with exactly this sub-field replaced:
        #   w2 == w + (new - f) * 2^sh
        # which, as an identity on integers, leaves every other bit of the word unchanged; together
        # with "the getter returns its documented bits for every word" (asserted for each
        # sub-field's own getter) this gives the independence the property asks for.
        params = []
        pre = []
        if sh > 0:
            params.append(R("low", 0, 2**sh - 1))
            if sh >= 5 and name != "level_mode":
                pre.append("low % 32 <= 4")
            if sh >= 13:
                pre.append("(low // 256) % 32 <= 7")
        params.append(R("f", 0, hi if enum else 2**nb - 1))
        hb = 32 - sh - nb
        params.append(R("high", 0, 2**hb - 1))
        if sh + nb <= 8:
            pre.append(f"(high // {2**(8 - sh - nb)}) % 32 <= 7")
        wexpr = ("low + " if sh > 0 else "") + f"{2**sh} * f + {2**(sh+nb)} * high"
        cases = [(f"{enum}({k})", str(k), f".{k}", []) for k in range(lo, hi + 1)] if enum else [("new", "new", "", [R("new", lo, hi)])]
        for newexpr, newval, suffix, extra in cases:
            body = f"""
                w = {wexpr}
                v = Visualization(w)
                if int(v.{name}) != f:
                    return False
                v.{name} = {newexpr}
                return v.value == w + ({newval} - f) * {2**sh} and int(v.{name}) == {newval}
                """
            obs.append(Ob(f"vis.setter.{name}{suffix}", build(params + extra, body, setup=setup, extra_pre=pre),
                          f"Visualization.{name}: the getter returns its documented bits of any word; after {name} = v the word is the old word with exactly that sub-field replaced (every other sub-field and bit unchanged) and the getter returns v",
                          group="vis.setter", shape="Visualization word" + (f", new value {newval}" if enum else ""),
                          symbolic="old 32-bit word as (bits below, sub-field, bits above), each part over its full width, enumerated parts defined" + ("" if enum else f"; new value {lo}..{hi}"), timeout=120))
    # visualization through the module attribute and the file (SVPR)
    obs.append(Ob(
        "vis.file",
        build([U32("w")], """
            proj = Project()
            a = proj.new_module(m.Amplifier, visualization=w)
            q = rt(proj)
            return q.modules[1].visualization.value == w and a.visualization.value == w
            """),
        "module visualization word survives save/load unchanged", group="vis", shape="Project[Output, Amplifier]", symbolic="32-bit word", timeout=90))

    # ---- 4. SMII / SFGS ---------------------------------------------------------------------
    obs.append(Ob(
        "smii.rt",
        build([B("always"), R("chan", 0, 2**31 - 1), B("always2"), R("chan2", 0, 2**31 - 1)], """
            proj = Project()
            a = proj.new_module(m.Amplifier, midi_in_always=always, midi_in_channel=chan)
            q = rt(proj)
            b = q.modules[1]
            if not (b.midi_in_always == always and b.midi_in_channel == chan):
                return False
            # set one sub-field on the loaded module, the other must stay
            b.midi_in_always = always2
            c = rt(q).modules[1]
            if not (c.midi_in_always == always2 and c.midi_in_channel == chan):
                return False
            c.midi_in_channel = chan2
            d = rt(Synth(c)).module
            return d.midi_in_always == always2 and d.midi_in_channel == chan2
            """),
        "MIDI-in mode and channel pack into SMII and come back independently (project and synth files)", group="smii",
        shape="Project[Output, Amplifier]", symbolic="always: bool, channel 0..2^31-1 (31 bits of the u32 word)", timeout=150))
    obs.append(Ob(
        "sfgs.rt",
        build([R("a", 0, 7), R("b", 0, 7)], """
            proj = Project()
            proj.receive_sync_midi = a
            proj.receive_sync_other = b
            q = rt(proj)
            return q.receive_sync_midi == a and q.receive_sync_other == b
            """),
        "project sync flags pack into SFGS and come back independently", group="sfgs", shape="Project()", symbolic="both 3-bit fields", timeout=120))
    obs.append(Ob(
        "sfgs.edit",
        build([R("a", 0, 7), R("b", 0, 7), R("n", 0, 7), B("which")], """
            proj = Project()
            proj.receive_sync_midi = a
            proj.receive_sync_other = b
            q = rt(proj)
            if which:
                q.receive_sync_midi = n
            else:
                q.receive_sync_other = n
            r = rt(q)
            return (r.receive_sync_midi == n and r.receive_sync_other == b) if which else (r.receive_sync_midi == a and r.receive_sync_other == n)
            """),
        "changing one sync sub-field of a loaded project leaves the other unchanged after save/load", group="sfgs", shape="Project()", symbolic="old a, b and new value 0..7; which sub-field", timeout=120))
    return obs
