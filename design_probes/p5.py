import rv.api
from rv.api import Project, read_sunvox_file, m
from symio import PyFile

def name_rt(suffix: str) -> bool:
    """
    pre: len(suffix) <= 2 and chr(0) not in suffix
    post: _
    """
    p = Project()
    name = "a" * 30 + suffix
    a = p.new_module(m.Amplifier, name=name)
    f = PyFile()
    p.write_to(f)
    f.seek(0)
    q = read_sunvox_file(f)
    b = q.modules[1]
    return name.startswith(b.name) and len(b.name.encode("utf8")) <= 32

def pname_rt(name: str) -> bool:
    """
    pre: len(name) <= 3 and chr(0) not in name
    post: _
    """
    p = Project()
    p.name = name
    f = PyFile()
    p.write_to(f)
    f.seek(0)
    q = read_sunvox_file(f)
    return q.name == name
