#!/venv/bin/python
# Replay of a solver counterexample against the real library: no CrossHair, no stubs, real io.BytesIO.
# property C20  obligation macro.duplicate
# two targets on one module are refused with MappingError (nothing is created); distinct modules are accepted
# exit 1 = the property fails for this input on the current /repo tree; exit 0 = it holds.
import os, sys
os.environ["VF_REPLAY"] = "1"
sys.path.insert(0, "/verif")
ARGS = (True, True)
KWARGS = {}
HARNESS = 'from vf.prelude import *\nfrom rv.modules import MODULE_CLASSES\nfrom vf.invariants import *\nfrom rv.errors import MappingError, ControllerValueError\nMC = MODULE_CLASSES["MultiCtl"]\n\n\ndef h(dup: bool, third: bool) -> bool:\n    """\n    post: _\n    """\n    p = Project()\n    a = p.new_module(MODULE_CLASSES["Amplifier"])\n    b_ = p.new_module(MODULE_CLASSES["Amplifier"])\n    n0 = len(p.modules)\n    pairs = [(a, "volume"), (b_, "balance"), ((a if dup else b_) if third else None, "gain")]\n    pairs = [pr for pr in pairs if pr[0] is not None]\n    try:\n        MC.macro(p, *pairs)\n    except MappingError:\n        return third and len(p.modules) == n0\n    return not third\n\n\ndef h__reach(dup: bool, third: bool) -> bool:\n    """\n    post: _\n    """\n    h(dup, third)\n    return False\n'
ns = {"__name__": "vf_replay"}
exec(compile(HARNESS, "<harness macro.duplicate>", "exec"), ns)
try:
    ok = ns['h'](*ARGS, **KWARGS)
except Exception as e:
    import traceback; traceback.print_exc()
    print("replay: raised", type(e).__name__, e)
    sys.exit(1)
print("replay: h(*%r, **%r) returned %r" % (ARGS, KWARGS, ok))
sys.exit(0 if ok else 1)
