#!/venv/bin/python
# Replay of a solver counterexample against the real library: no CrossHair, no stubs, real io.BytesIO.
# property C18  obligation header.cut2
# a file of 2 arbitrary bytes (shorter than a chunk id), given as str or Path: flag restored, the opened file closed
# exit 1 = the property fails for this input on the current /repo tree; exit 0 = it holds.
import os, sys
os.environ["VF_REPLAY"] = "1"
sys.path.insert(0, "/verif")
ARGS = (0, 0, 0, False, False)
KWARGS = {}
HARNESS = 'from vf.prelude import *\nimport rv.errors\nimport rv.readers.reader as _reader\nimport rv.modules.metamodule as _mm\nimport rv.modules.sampler as _smp\n\n\nimport builtins as _bi\nimport io as _io\nimport pathlib as _pl\n\nFAULT_NAME = "vf_fault_injected_file.sunvox"\n_CURRENT = {"f": None, "opened": 0}\n\n\ndef _is_fault(name):\n    try:\n        return str(name).endswith(FAULT_NAME)\n    except Exception:\n        return False\n\n\ndef _open_hook(orig):\n    def opener(name, *a, **kw):\n        if _is_fault(name):\n            _CURRENT["opened"] += 1\n            return _CURRENT["f"]\n        return orig(name, *a, **kw)\n    return opener\n\n\ndef _path_open(self, *a, **kw):\n    if _is_fault(self):\n        _CURRENT["opened"] += 1\n        return _CURRENT["f"]\n    return _ORIG_PATH_OPEN(self, *a, **kw)\n\n\n_ORIG_PATH_OPEN = _pl.Path.open\n\n\ndef run(data, k, init, mode, by_path, nested_k=None, use_str=True):\n    """-> True iff flag restored (and file closed when opened by the library)"""\n    f = FaultFile(data, k, mode)\n    _CURRENT["f"] = f\n    _CURRENT["opened"] = 0\n    old_mm, old_smp = _mm.BytesIO, _smp.BytesIO\n    old_open, old_ioopen = _bi.open, _io.open\n    # however the library opens a path (pathlib, builtins.open, io.open), the prepared file is what it gets\n    _pl.Path.open = _path_open\n    _bi.open = _open_hook(old_open)\n    _io.open = _open_hook(old_ioopen)\n    if nested_k is not None:\n        mk = lambda d=b"": FaultFile(d, nested_k, mode)\n        _mm.BytesIO = mk\n        _smp.BytesIO = mk\n    rv.errors.RAISE_CONTROLLER_VALUE_ERRORS = init\n    try:\n        try:\n            if by_path:\n                read_sunvox_file(("dir/" + FAULT_NAME) if use_str else _pl.Path("dir") / FAULT_NAME)\n            else:\n                read_sunvox_file(f)\n        except Exception:\n            pass\n        ok = rv.errors.RAISE_CONTROLLER_VALUE_ERRORS is init\n        if by_path and (_CURRENT["opened"] != 1 or not f.closed):\n            ok = False   # the library must have opened the path exactly once and closed what it opened\n        if not by_path and f.closed:\n            ok = False   # a file object handed in by the caller is the caller\'s to close\n    finally:\n        rv.errors.RAISE_CONTROLLER_VALUE_ERRORS = True\n        _mm.BytesIO, _smp.BytesIO = old_mm, old_smp\n        _pl.Path.open, _bi.open, _io.open = _ORIG_PATH_OPEN, old_open, old_ioopen\n    return ok\n\n\ndef h(b0: int, b1: int, b2: int, init: bool, as_str: bool) -> bool:\n    """\n    pre: (0 <= b0 <= 255) and (0 <= b1 <= 255) and (0 <= b2 <= 255)\n    post: _\n    """\n    data = bytes([b0, b1, b2])[:2]\n    return run(data, 10**9, init, "raise", True, use_str=as_str)\n\n\ndef h__reach(b0: int, b1: int, b2: int, init: bool, as_str: bool) -> bool:\n    """\n    pre: (0 <= b0 <= 255) and (0 <= b1 <= 255) and (0 <= b2 <= 255)\n    post: _\n    """\n    h(b0, b1, b2, init, as_str)\n    return False\n'
ns = {"__name__": "vf_replay"}
exec(compile(HARNESS, "<harness header.cut2>", "exec"), ns)
try:
    ok = ns['h'](*ARGS, **KWARGS)
except Exception as e:
    import traceback; traceback.print_exc()
    print("replay: raised", type(e).__name__, e)
    sys.exit(1)
print("replay: h(*%r, **%r) returned %r" % (ARGS, KWARGS, ok))
sys.exit(0 if ok else 1)
