#!/venv/bin/python
# Replay of a solver counterexample against the real library: no CrossHair, no stubs, real io.BytesIO.
# property C16  obligation env.panning_envelope.flags
# panning_envelope: enable/sustain/loop flags survive and pack into the documented flag bits
# exit 1 = the property fails for this input on the current /repo tree; exit 0 = it holds.
import os, sys
os.environ["VF_REPLAY"] = "1"
sys.path.insert(0, "/verif")
ARGS = (False, False, False)
KWARGS = {}
HARNESS = 'from vf.prelude import *\nfrom rv.modules import MODULE_CLASSES\nfrom vf.invariants import *\nfrom vf import refformat as RF\nSMP = MODULE_CLASSES["Sampler"]\nSG = ("type", "payload")\n\n\ndef rt_sampler(s):\n    data = save_bytes(Synth(s))\n    t = load_bytes(data).module\n    return data, t\n\n\ndef rec_of(data, chnm):\n    ver, md = RF.decode_synth(data)\n    r = [c for c in md["chunks"] if c["chnm"] == chnm]\n    return r[0] if len(r) == 1 else None\n\n\ndef h(a: bool, b_: bool, c: bool) -> bool:\n    """\n    post: _\n    """\n    s = SMP()\n    e = s.panning_envelope\n    # (booleans made concrete by forking: the flag byte is built with | on bools)\n    e.enable = True if a else False\n    e.sustain = True if b_ else False\n    e.loop = True if c else False\n    data, t = rt_sampler(s)\n    f = t.panning_envelope\n    return f.enable == a and f.sustain == b_ and f.loop == c and rec_of(data, 259)["chdt"][0] == (1 if a else 0) + (2 if b_ else 0) + (4 if c else 0)\n\n\ndef h__reach(a: bool, b_: bool, c: bool) -> bool:\n    """\n    post: _\n    """\n    h(a, b_, c)\n    return False\n'
ns = {"__name__": "vf_replay"}
exec(compile(HARNESS, "<harness env.panning_envelope.flags>", "exec"), ns)
try:
    ok = ns['h'](*ARGS, **KWARGS)
except Exception as e:
    import traceback; traceback.print_exc()
    print("replay: raised", type(e).__name__, e)
    sys.exit(1)
print("replay: h(*%r, **%r) returned %r" % (ARGS, KWARGS, ok))
sys.exit(0 if ok else 1)
