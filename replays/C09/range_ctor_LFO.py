#!/venv/bin/python
# Replay of a solver counterexample against the real library: no CrossHair, no stubs, real io.BytesIO.
# property C09  obligation range.ctor.LFO
# LFO, every fixed-range controller, constructor keyword: accepted iff min <= v <= max (then reads back v), otherwise ControllerValueError
# exit 1 = the property fails for this input on the current /repo tree; exit 0 = it holds.
import os, sys
os.environ["VF_REPLAY"] = "1"
sys.path.insert(0, "/verif")
ARGS = (0,)
KWARGS = {}
HARNESS = 'from vf.prelude import *\nfrom rv.modules import MODULE_CLASSES\nfrom rv.errors import ControllerValueError, override_raise_controller_value_errors\nCLS = MODULE_CLASSES[\'LFO\']\n\n\ndef h(v: int) -> bool:\n    """\n    post: _\n    """\n    try:\n        mod = CLS(volume=v)\n    except ControllerValueError:\n        if 0 <= v <= 512:\n            return False\n    else:\n        if not (0 <= v <= 512) or mod.volume != v:\n            return False\n    try:\n        mod = CLS(amplitude=v)\n    except ControllerValueError:\n        if 0 <= v <= 256:\n            return False\n    else:\n        if not (0 <= v <= 256) or mod.amplitude != v:\n            return False\n    try:\n        mod = CLS(set_phase=v)\n    except ControllerValueError:\n        if 0 <= v <= 256:\n            return False\n    else:\n        if not (0 <= v <= 256) or mod.set_phase != v:\n            return False\n    try:\n        mod = CLS(duty_cycle=v)\n    except ControllerValueError:\n        if 0 <= v <= 256:\n            return False\n    else:\n        if not (0 <= v <= 256) or mod.duty_cycle != v:\n            return False\n    try:\n        mod = CLS(freq_scale=v)\n    except ControllerValueError:\n        if 0 <= v <= 200:\n            return False\n    else:\n        if not (0 <= v <= 200) or mod.freq_scale != v:\n            return False\n    return True\n\n\ndef h__reach(v: int) -> bool:\n    """\n    post: _\n    """\n    h(v)\n    return False\n'
ns = {"__name__": "vf_replay"}
exec(compile(HARNESS, "<harness range.ctor.LFO>", "exec"), ns)
try:
    ok = ns['h'](*ARGS, **KWARGS)
except Exception as e:
    import traceback; traceback.print_exc()
    print("replay: raised", type(e).__name__, e)
    sys.exit(1)
print("replay: h(*%r, **%r) returned %r" % (ARGS, KWARGS, ok))
sys.exit(0 if ok else 1)
