#!/usr/bin/env python3
"""Regenerate the table of seeded changes at the end of DESIGN.md from seeded/*/meta.json."""
import glob, json, os
MARK = "<!-- seeded-table -->"
rows = []
for f in sorted(glob.glob("/verif/seeded/*/meta.json")):
    m = json.load(open(f))
    sid = os.path.basename(os.path.dirname(f))
    caught = ", ".join(c.split(":", 1)[1] for c in m["caught_by"][:4]) + (" ..." if len(m["caught_by"]) > 4 else "")
    rows.append(f"| {sid} | {m['change'][:150]} | {m['needs_to_manifest'][:110]} | {caught or '-'} | {m['notes'][:160]} |")
table = MARK + "\n\n### Seeded changes and the obligations that report them (quick tier, seed 0)\n\n| id | change | needs | reported by (obligation) | note |\n|---|---|---|---|---|\n" + "\n".join(rows) + "\n"
p = "/verif/DESIGN.md"
s = open(p).read()
if MARK in s:
    s = s[:s.index(MARK)]
open(p, "w").write(s.rstrip("\n") + "\n\n" + table)
print(len(rows), "rows")
