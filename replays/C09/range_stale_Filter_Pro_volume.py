#!/venv/bin/python
# Replay of a solver counterexample against the real library: no CrossHair, no stubs, real io.BytesIO.
# property C09  obligation range.stale.Filter Pro.volume
# Filter Pro, controllers ['volume', 'freq', 'freq_finetune', 'freq_scale', 'q', 'gain']: whatever integer w the module already stores (leniently stored values may be out of range), a strict assignment of v is accepted iff min <= v <= max, otherwise ControllerValueError and the stored value remains
# exit 1 = the property fails for this input on the current /repo tree; exit 0 = it holds.
import os, sys
os.environ["VF_REPLAY"] = "1"
sys.path.insert(0, "/verif")
ARGS = (32768, 32768)
KWARGS = {}
HARNESS = 'from vf.prelude import *\nfrom rv.modules import MODULE_CLASSES\nfrom rv.errors import ControllerValueError, override_raise_controller_value_errors\nCLS = MODULE_CLASSES[\'Filter Pro\']\n\n\ndef h(w: int, v: int) -> bool:\n    """\n    post: _\n    """\n    mod = CLS()\n    with override_raise_controller_value_errors(False):\n        mod.volume = w\n    before = mod.volume\n    try:\n        mod.volume = v\n    except ControllerValueError:\n        if 0 <= v <= 32768 or mod.volume != before:\n            return False\n    else:\n        if not (0 <= v <= 32768) or mod.volume != v:\n            return False\n    with override_raise_controller_value_errors(False):\n        mod.freq = w\n    before = mod.freq\n    try:\n        mod.freq = v\n    except ControllerValueError:\n        if 0 <= v <= 22000 or mod.freq != before:\n            return False\n    else:\n        if not (0 <= v <= 22000) or mod.freq != v:\n            return False\n    with override_raise_controller_value_errors(False):\n        mod.freq_finetune = w\n    before = mod.freq_finetune\n    try:\n        mod.freq_finetune = v\n    except ControllerValueError:\n        if -1000 <= v <= 1000 or mod.freq_finetune != before:\n            return False\n    else:\n        if not (-1000 <= v <= 1000) or mod.freq_finetune != v:\n            return False\n    with override_raise_controller_value_errors(False):\n        mod.freq_scale = w\n    before = mod.freq_scale\n    try:\n        mod.freq_scale = v\n    except ControllerValueError:\n        if 0 <= v <= 200 or mod.freq_scale != before:\n            return False\n    else:\n        if not (0 <= v <= 200) or mod.freq_scale != v:\n            return False\n    with override_raise_controller_value_errors(False):\n        mod.q = w\n    before = mod.q\n    try:\n        mod.q = v\n    except ControllerValueError:\n        if 0 <= v <= 32768 or mod.q != before:\n            return False\n    else:\n        if not (0 <= v <= 32768) or mod.q != v:\n            return False\n    with override_raise_controller_value_errors(False):\n        mod.gain = w\n    before = mod.gain\n    try:\n        mod.gain = v\n    except ControllerValueError:\n        if -16384 <= v <= 16384 or mod.gain != before:\n            return False\n    else:\n        if not (-16384 <= v <= 16384) or mod.gain != v:\n            return False\n    return True\n\n\ndef h__reach(w: int, v: int) -> bool:\n    """\n    post: _\n    """\n    h(w, v)\n    return False\n'
ns = {"__name__": "vf_replay"}
exec(compile(HARNESS, "<harness range.stale.Filter Pro.volume>", "exec"), ns)
try:
    ok = ns['h'](*ARGS, **KWARGS)
except Exception as e:
    import traceback; traceback.print_exc()
    print("replay: raised", type(e).__name__, e)
    sys.exit(1)
print("replay: h(*%r, **%r) returned %r" % (ARGS, KWARGS, ok))
sys.exit(0 if ok else 1)
