"""C20 — MultiCtl fan-out stays within each target's range and is monotone."""
import random

from vf.harness import B, I32, R, U8, U16, U32, Ob, build
from vf.modgen import SETUP as MSETUP, ctl_kind

EXPLANATION = (
    "C20: (S) the MultiCtl.macro helper and MultiCtl.on_value_changed run under CrossHair on real projects: creation and linking for one target of every controller "
    "kind, the two refusals (more than 16 targets, two targets on one module), a link whose mapping names no controller, and -- end to end, with the MultiCtl input value "
    "symbolic over 0..32768 -- that the delivered value is accepted by the target (its range check is the real Range.validate).  CrossHair treats floats as reals there, "
    "so the numeric claim itself is decided by (F): multictl.convert_value is translated from its AST to QF_BVFP and decided by cvc5 and z3 in two lemmas.  "
    "L1 (post-curve stage; gain 256, no curve): for each concrete tuple (quantization, window, target span and kind, orientation) and EVERY u in 0..32768 the result lies in "
    "the target's span and is monotone in the stated direction (adjacent form f(u) vs f(u+1); global monotonicity by chaining).  L2 (gain + curve stage; identity post stage): "
    "for each (gain, curve, bucket k) and every input whose bucket is k the interpolated value lies in 0..32768 and is monotone inside the bucket and across the boundary to bucket k+1.  "
    "Composition (by reading the code: the stages are sequential and the only data flow is the stage value): monotone o monotone, range-preserving o range-preserving."
)
BOUNDS = {"quick": {"helper": "one target per controller kind for 10 seeded types; 17 targets; duplicate module", "L1": "60 seeded (target controller, quantization, window, orientation) tuples -- always including positive-minimum, negative-minimum, compact and zero-based ranges, corner quantizations 0/1/2/3/32767/32768 and windows of width 0; the parameter tuple is captured from the real on_value_changed; u over 0..32768 (complete)",
                    "L2": "default curve x gain 256: 80 buckets (both ends, the middle, 72 seeded); default curve x gain 1024: 24 buckets; one seeded monotone curve x gain 300: 24 buckets; each with in-bucket and cross-boundary monotonicity"},
          "thorough": {"helper": "every type", "L1": "600 tuples", "L2": "default + 4 seeded monotone curves x 8 gains, all buckets"}}
OUTSIDE = ["curves other than the listed tables", "parameter tuples outside the grid", "the inference bucket(v+1) in {bucket(v), bucket(v)+1} and 0 <= bucket <= 256 (argued from min(v*gain/256, 32768) with gain <= 1024; not a solver result)",
           "compact-range targets with a window wider than the target's span (such a window is out of the target's range by construction)"]
ASSUMPTIONS = ["curve entries lie in 0..32768 and the table is non-decreasing (checked concretely on each table used)"]

SETUP = MSETUP + '''from rv.errors import MappingError, ControllerValueError
MC = MODULE_CLASSES["MultiCtl"]
'''


def helper_obs(tier, rnd):
    from rv.modules import MODULE_CLASSES
    obs = []
    types = [t for t in MODULE_CLASSES if t not in ("Output", "MetaModule", "MultiCtl")]
    pick = rnd.sample(types, 10) if tier == "quick" else types
    for mt in pick:
        cls = MODULE_CLASSES[mt]
        bykind = {}
        for n, c in cls.controllers.items():
            if c._attached:
                bykind.setdefault(ctl_kind(c), []).append(n)
        for kind, names in bykind.items():
            if kind in ("dep", "none", "other"):
                continue
            n = rnd.choice(names)
            body = f"""
    p = Project()
    other = p.new_module(MODULE_CLASSES["Amplifier"])
    tgt = p.new_module(MODULE_CLASSES[{mt!r}])
    before_other = other.volume
    b = MC.macro(p, (tgt, {n!r}), x=x, y=y, layer=layer)
    if type(b) is not MC or b.parent is not p or p.modules[b.index] is not b:
        return False
    if b.out_links != [tgt.index] or tgt.in_links != [b.index] or (b.x, b.y, b.layer) != (x, y, layer):
        return False
    mp = b.mappings.values[0]
    if mp.controller != type(tgt).controllers[{n!r}].number or any(mq.controller != 0 for mq in b.mappings.values[1:]):
        return False
    return other.volume == before_other
"""
            obs.append(Ob(f"macro.{mt}.{kind}", build([I32("x"), I32("y"), R("layer", 0, 7)], body, setup=SETUP),
                          f"MultiCtl.macro for {mt}.{n} ({kind}): the MultiCtl is created in the project, linked to the target, its first mapping names the controller's number; nothing else is touched",
                          group="helper", shape=f"Project[Output, Amplifier, {mt}]", symbolic="x, y, layer of the new module", timeout=120))
    body = """
    p = Project()
    mods = [p.new_module(MODULE_CLASSES["Amplifier"]) for _ in range(17)]
    n0 = len(p.modules)
    try:
        MC.macro(p, *[(mod_, "volume") for mod_ in mods[:cnt]])
    except MappingError:
        return cnt > 16 and len(p.modules) == n0
    return cnt <= 16 and len(p.modules) == n0 + 1 and len(p.modules[-1].out_links) == cnt
"""
    obs.append(Ob("macro.limit", build([R("cnt", 1, 17)], body, setup=SETUP), "MultiCtl.macro accepts up to 16 targets and refuses 17 with MappingError, creating nothing", group="helper",
                  shape="17 Amplifiers", symbolic="number of targets 1..17", timeout=300))
    body = """
    p = Project()
    a = p.new_module(MODULE_CLASSES["Amplifier"])
    b_ = p.new_module(MODULE_CLASSES["Amplifier"])
    n0 = len(p.modules)
    pairs = [(a, "volume"), (b_, "balance"), ((a if dup else b_) if third else None, "gain")]
    pairs = [pr for pr in pairs if pr[0] is not None]
    try:
        MC.macro(p, *pairs)
    except MappingError:
        return third and len(p.modules) == n0
    return not third
"""
    obs.append(Ob("macro.duplicate", build([B("dup"), B("third")], body, setup=SETUP), "two targets on one module are refused with MappingError (nothing is created); distinct modules are accepted", group="helper",
                  shape="2 Amplifiers", symbolic="whether a third pair repeats a module", timeout=120))
    body = """
    p = Project()
    a = p.new_module(MODULE_CLASSES["Amplifier"], volume=av, balance=ab)
    g = p.new_module(MODULE_CLASSES["Generator"])
    mc = p.new_module(MC)
    mc >> [a, g]          # both links carry the default mapping, which names no controller (0)
    before = [getattr(a, n_) for n_ in a.controllers] + [getattr(g, n_) for n_ in g.controllers]
    mc.value = v
    after = [getattr(a, n_) for n_ in a.controllers] + [getattr(g, n_) for n_ in g.controllers]
    return before == after and a.volume == av and a.balance == ab and mc.value == v
"""
    obs.append(Ob("unmapped.link", build([R("v", 0, 32768), R("av", 0, 1024), R("ab", -128, 128)], body, setup=SETUP), "links whose mapping names controller 0 leave their targets untouched when the MultiCtl value changes",
                  group="helper", shape="MultiCtl linked to Amplifier and Generator, no controller mapped", symbolic="input value, the untouched module's values", timeout=240))
    # mapped + unmapped + freed link together, concrete inputs (the float kernel under CrossHair explodes on the curve lookup; numeric claim: Engine F)
    src = "from vf.prelude import *\n" + SETUP + '''

def h():
    for v in (0, 1, 128, 16384, 32767, 32768):
        p = Project()
        a = p.new_module(MODULE_CLASSES["Amplifier"], volume=77, balance=-5)
        g = p.new_module(MODULE_CLASSES["Generator"])
        z = p.new_module(MODULE_CLASSES["Amplifier"], gain=4321)
        mc = p.new_module(MC)
        mc >> [a, g, z]
        mc.mappings.values[1] = MC.Mapping((0, 0x8000, 1, 0, 0, 0, 0, 0))
        mc >> ~z                     # freed link slot (-1)
        mc.value = v
        if (a.volume, a.balance) != (77, -5) or z.gain != 4321 or [getattr(z, n_) for n_ in z.controllers][-1] != 0:
            print("untouched modules changed for value", v)
            return False
        t = type(g).controllers["volume"].value_type
        if not (t.min <= g.volume <= t.max):
            return False
    for mt, n in (("Amplifier", "volume"), ("Amplifier", "balance"), ("MultiSynth", "transpose"), ("Generator", "polyphony"), ("Filter", "type")):
        prev = None
        for v in range(0, 32769, 257):
            p = Project()
            tgt = p.new_module(MODULE_CLASSES[mt])
            mc = MC.macro(p, (tgt, n))
            mc.value = v
            t = type(tgt).controllers[n].value_type
            cur = getattr(tgt, n)
            if hasattr(t, "min") and not (t.min <= cur <= t.max):
                print(mt, n, v, cur)
                return False
    return True
'''
    obs.append(Ob("deliver.concrete", src, "mapped, unmapped and freed links together, and macro-built MultiCtls for five target kinds, on a grid of concrete inputs: untouched modules stay untouched, delivered values are accepted by the real range check",
                  engine="C", group="helper", shape="enumerated inputs (the float kernel cannot be run symbolically by CrossHair; the for-all claim is Engine F's)"))
    return obs


CV_REPLAY = '''from vf.prelude import *
from rv.modules.multictl import convert_value

P = {params!r}
CURVE = {curve!r}


def h(model=None):
    a = convert_value(*P, model["v"], CURVE)
    print("convert_value%r value=%d -> %d" % (tuple(P), model["v"], a))
    if "v2" in model:
        b = convert_value(*P, model["v2"], CURVE)
        print("value=%d -> %d" % (model["v2"], b))
        return not (model["v"] <= model["v2"] and ({direction} >= 0 and a > b or {direction} < 0 and a < b))
    return {lo} <= a <= {hi}


def scan():
    """whole input domain of the real function (used when the solver's model is a stage value)"""
    prev = None
    for c in range(0, 32769):
        a = convert_value(*P, c, CURVE)
        if not ({lo} <= a <= {hi}):
            print("value=%d -> %d outside [{lo}, {hi}]" % (c, a))
            return False
        if prev is not None and (({direction} >= 0 and prev > a) or ({direction} < 0 and prev < a)):
            print("value=%d -> %d but value=%d -> %d" % (c - 1, prev, c, a))
            return False
        prev = a
    return True
'''


def spans():
    from rv.controller import CompactRange, DependentRange, Range
    from rv.modules import MODULE_CLASSES
    out = set()
    for mt, cls in MODULE_CLASSES.items():
        for n, c in cls.controllers.items():
            t = c.value_type
            if isinstance(t, Range) and t.max > t.min:
                out.add((t.max - t.min, isinstance(t, CompactRange)))
    return sorted(out)


def capture_tuple(mt, ctl_name, gain, q, wmin, wmax):
    """Run the REAL MultiCtl.on_value_changed for one link with convert_value replaced by a recorder:
    the parameter tuple handed to the kernel (window swap, destination ends, vmax) and the offset
    applied to its result are taken from the code under test, not re-derived here."""
    import rv.api  # noqa
    import rv.modules.multictl as mcm
    from rv.api import Project
    from rv.modules import MODULE_CLASSES
    p = Project()
    tgt = p.new_module(MODULE_CLASSES[mt])
    mc = p.new_module(mcm.MultiCtl, gain=gain, quantization=q)
    mc >> tgt
    num = type(tgt).controllers[ctl_name].number
    mc.mappings.values[0] = mcm.MultiCtl.Mapping((wmin, wmax, num, 0, 0, 0, 0, 0))
    rec = {}
    real = mcm.convert_value
    t = type(tgt).controllers[ctl_name].value_type

    def recorder(*a):
        rec["args"] = a
        return 0   # any in-range result: the target then receives 0 + offset

    mcm.convert_value = recorder
    try:
        before = getattr(tgt, ctl_name)
        try:
            mc.value = 1
        except Exception as e:  # noqa
            rec["error"] = repr(e)
        after = getattr(tgt, ctl_name)
    finally:
        mcm.convert_value = real
    if "args" not in rec:
        return None
    g_, q_, smin, smax, dmin, dmax, vmax, value, curve = rec["args"]
    offset = after - 0 if "error" not in rec else None
    return {"params": [g_, q_, smin, smax, dmin, dmax, vmax], "offset": offset, "tmin": t.min, "tmax": t.max, "error": rec.get("error")}


def l1_obs(tier, rnd):
    """post-curve stage, one obligation per (target controller, quantization, window, orientation): the tuple is
    captured from the real on_value_changed (see capture_tuple); gain 256 / no curve isolates the stage"""
    from rv.controller import CompactRange, Range
    from rv.modules import MODULE_CLASSES
    targets = []
    for mt, cls in MODULE_CLASSES.items():
        if mt in ("Output", "MetaModule", "MultiCtl"):
            continue
        for n, c in cls.controllers.items():
            t = c.value_type
            if isinstance(t, Range) and t.max > t.min and c._attached:
                targets.append((mt, n, t.min, t.max, isinstance(t, CompactRange)))
    # every distinct (min, max, kind) at least once in thorough; quick: seeded sample that always contains a positive-minimum,
    # a negative-minimum, a compact and a zero-based range
    byshape = {}
    for tg in targets:
        byshape.setdefault((tg[2], tg[3], tg[4]), tg)
    shapes = sorted(byshape)
    must = [[s_ for s_ in shapes if s_[0] > 0], [s_ for s_ in shapes if s_[0] < 0 and not s_[2]], [s_ for s_ in shapes if s_[2]], [s_ for s_ in shapes if s_[0] == 0]]
    obs = []
    qs = [0, 1, 2, 3, 32767, 32768, 100, 4096]
    n = 60 if tier == "quick" else 600
    seen = set()
    i = 0
    while len(obs) < n and i < 20 * n:
        i += 1
        pool = must[len(obs) % 4] if len(obs) < 24 and must[len(obs) % 4] else shapes
        mt, cn, tmin, tmax, compact = byshape[rnd.choice(pool)]
        D = tmax - tmin
        q = rnd.choice(qs + [rnd.randint(0, 32768)])
        if compact:
            w = sorted((rnd.randint(0, D), rnd.randint(0, D)))
        else:
            w = list(rnd.choice([(0, 32768), (0, 0), (32768, 32768), tuple(sorted((rnd.randint(0, 32768), rnd.randint(0, 32768)))), (100, 20000)]))
        rev = rnd.choice([False, True])
        wmin, wmax = (w[1], w[0]) if rev else (w[0], w[1])
        if wmin == wmax:
            rev = False
        key = (mt, cn, q, wmin, wmax)
        if key in seen:
            continue
        seen.add(key)
        cap = capture_tuple(mt, cn, 256, q, wmin, wmax)
        if cap is None or cap["offset"] is None:
            # the real code refused even the recorder's 0: report as an obligation that fails concretely
            src = f"from vf.prelude import *\n\ndef h():\n    print({(mt, cn, q, wmin, wmax, cap)!r})\n    return False\n"
            obs.append(Ob(f"L1.{len(obs)}", src, f"on_value_changed for {mt}.{cn} could not be driven (captured: {cap})", engine="C", group="L1"))
            continue
        params = cap["params"]
        off = cap["offset"]
        # the value delivered is kernel result + offset; it must lie in the target's declared range
        out_lo, out_hi = tmin - off, tmax - off
        direction = -1 if rev else 1
        payload = {"kind_of_job": "convert_value_staged", "params": params, "curve": None, "out_lo": out_lo, "out_hi": out_hi, "direction": direction, "timeout": 120 if tier == "quick" else 400,
                   "need_both": False, "functions": ["rv/modules/multictl.py:convert_value", "rv/modules/multictl.py:MultiCtl.on_value_changed (parameter tuple captured from the real call)"],
                   "replay_src": CV_REPLAY.format(params=params, curve=None, direction=direction, lo=out_lo, hi=out_hi) + "\n\ndef h(model=None):\n    return scan()\n"}
        obs.append(Ob(f"L1.{len(obs)}", "", f"post-curve stage for target {mt}.{cn} [{tmin}, {tmax}]{' (compact)' if compact else ''}, quantization {q}, window {wmin}..{wmax}: "
                      f"kernel result + {off} stays in the declared range and is monotone ({'non-increasing' if rev else 'non-decreasing'}) for every u in 0..32768",
                      group="L1", shape=f"convert_value{tuple(params)} as called by on_value_changed", symbolic="u over 0..32768", timeout=payload["timeout"], engine="F", payload=payload))
    return obs


def monotone_curve(rnd):
    pts = sorted(rnd.randint(0, 32768) for _ in range(257))
    pts[0] = rnd.choice([0, pts[0]])
    pts[-1] = rnd.choice([32768, pts[-1]])
    return pts


def l2_obs(tier, rnd):
    from rv.modules import MODULE_CLASSES
    default = list(MODULE_CLASSES["MultiCtl"]().curve.values)
    assert len(default) == 257 and all(0 <= a <= b <= 32768 for a, b in zip(default, default[1:] + [32768]))
    plans = []
    if tier == "quick":
        plans.append(("default", default, 256, sorted({0, 1, 2, 127, 128, 254, 255, 256} | set(rnd.sample(range(257), 72)))))
        plans.append(("default", default, 1024, sorted({0, 255, 256} | set(rnd.sample(range(257), 21)))))
        plans.append(("seeded", monotone_curve(rnd), 300, sorted({0, 1} | set(rnd.sample(range(257), 22)))))
    else:
        for g in (0, 1, 100, 255, 256, 257, 777, 1024):
            plans.append(("default", default, g, list(range(257))))
        for i in range(4):
            plans.append((f"seeded{i}", monotone_curve(rnd), rnd.choice([256, 300, 1024]), list(range(257))))
    obs = []
    for cname, curve, gain, buckets in plans:
        for k in buckets:
            # the input ranges over the WHOLE domain 0..32768; the hint "bucket == k" (an assumption on the function's own
            # bucket term) is what restricts the query to the inputs that use segment k, whatever formula the code uses for it
            lo, hi = 0, 32768
            if gain == 0 and k != 0:
                continue
            params = [gain, 32768, 0, 32768, 0, 32768, None]
            a, b_ = curve[k], curve[k + 1] if k < 256 else curve[k]
            # with gain > 256 several inputs beyond the point where value reaches 32768 share bucket 256
            payload = {"kind_of_job": "convert_value", "params": params, "curve": curve, "bucket": k, "in_lo": lo, "in_hi": hi, "out_lo": min(a, b_), "out_hi": max(a, b_), "direction": 1,
                       "timeout": 120 if tier == "quick" else 400, "need_both": False, "functions": ["rv/modules/multictl.py:convert_value"],
                       "replay_src": CV_REPLAY.format(params=params, curve=curve, direction=1, lo=min(a, b_), hi=max(a, b_))}
            obs.append(Ob(f"L2.{cname}.g{gain}.b{k}", "", f"gain + curve stage, curve '{cname}', gain {gain}, bucket {k} (points {a} -> {b_}): the interpolated value lies between the two curve points and is monotone inside the bucket, for every input whose bucket is {k}",
                          group="L2", shape=f"convert_value({gain}, 32768, 0, 32768, 0, 32768, None, v, curve) under bucket(v) == {k}", symbolic=f"v over 0..32768 under the assumption that the function's bucket term equals {k}", timeout=payload["timeout"], engine="F", payload=payload))
    return obs


def obligations(tier, seed):
    rnd = random.Random(seed)
    return helper_obs(tier, rnd) + l1_obs(tier, rnd) + l2_obs(tier, rnd)
