"""Run CrossHair on one generated harness function (and its reachability twin).

usage: python -m vf.worker <harness.py> <func> <per_condition_timeout_s> [--no-twin]
prints one JSON object on the last stdout line:
  state: CONFIRMED | POST_FAIL | EXEC_ERR | CANNOT_CONFIRM | PRE_UNSAT | ... | ERROR
  message, args (the counterexample call, as python source), paths, cpu_s, twin"""
import importlib.util
import json
import os
import sys
import time
import traceback


def _load(path):
    name = "vfh_" + os.path.basename(path)[:-3]
    spec = importlib.util.spec_from_file_location(name, path)
    mod = importlib.util.module_from_spec(spec)
    sys.modules[name] = mod
    spec.loader.exec_module(mod)
    return mod


def analyze(fn, timeout, max_iter=None):
    from crosshair.core_and_libs import analyze_function, run_checkables
    from crosshair.options import AnalysisOptionSet
    from crosshair.statespace import MessageType
    from collections import Counter

    stats = Counter()
    kw = dict(per_condition_timeout=float(timeout), per_path_timeout=max(15.0, float(timeout) / 3), report_all=True, stats=stats)
    if max_iter:
        kw["max_iterations"] = max_iter
    opts = AnalysisOptionSet(**kw)
    t0 = time.process_time()
    checkables = analyze_function(fn, opts)
    msgs = run_checkables(checkables)
    cpu = time.process_time() - t0
    out = []
    for mmsg in msgs:
        out.append({"state": mmsg.state.name, "message": mmsg.message, "line": mmsg.line,
                    "traceback": (mmsg.traceback or "")[-1500:]})
    if not out:
        out.append({"state": "NO_CONDITIONS", "message": "no checkable conditions found", "line": 0})
    # worst first
    order = ["POST_FAIL", "EXEC_ERR", "POST_ERR", "SYNTAX_ERR", "IMPORT_ERR", "PRE_UNSAT", "CANNOT_CONFIRM", "NO_CONDITIONS", "CONFIRMED"]
    out.sort(key=lambda d: order.index(d["state"]) if d["state"] in order else 0)
    res = dict(out[0])
    res["paths"] = int(stats.get("num_paths", 0))
    res["cpu_s"] = round(cpu, 2)
    return res


def trace_functions(mod, func, twin_message):
    """Run h concretely on the twin's witness input and record which rv functions execute."""
    from vf.driver import parse_call
    call = parse_call(twin_message, func + "__reach")
    if call is None:
        return []
    seen = set()

    def prof(frame, event, arg):
        if event == "call":
            co = frame.f_code
            fn = co.co_filename
            if "/src/python/rv/" in fn:
                seen.add(fn.split("/src/python/")[1] + ":" + getattr(co, "co_qualname", co.co_name))

    sys.setprofile(prof)
    try:
        getattr(mod, func)(*call[0], **call[1])
    except BaseException:
        pass
    finally:
        sys.setprofile(None)
    return sorted(seen)


def main():
    path, func, timeout = sys.argv[1], sys.argv[2], float(sys.argv[3])
    twin = "--no-twin" not in sys.argv
    res = {"state": "ERROR", "message": ""}
    try:
        mod = _load(path)
        fn = getattr(mod, func)
        res = analyze(fn, timeout)
        if twin and res["state"] == "CONFIRMED":
            tw = getattr(mod, func + "__reach", None)
            if tw is not None:
                r2 = analyze(tw, max(60, timeout / 2))
                res["twin"] = r2["state"]
                res["twin_message"] = r2["message"][:300]
                res["cpu_s"] = round(res["cpu_s"] + r2["cpu_s"], 2)
                if r2["state"] == "POST_FAIL":
                    res["functions"] = trace_functions(mod, func, r2["message"])
    except BaseException as e:  # noqa
        res = {"state": "ERROR", "message": "%s: %s" % (type(e).__name__, e), "traceback": traceback.format_exc()[-3000:]}
    sys.stdout.flush()
    print("\n@@RESULT@@" + json.dumps(res))


if __name__ == "__main__":
    main()
