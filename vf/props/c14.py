"""C14 — ownership and indexing of modules and patterns stay coherent."""
import itertools
import random

from vf.harness import B, R, U16, Ob, build

EXPLANATION = (
    "C14: bounded operation histories through the real API, starting from an empty project and from projects loaded from reference-encoded "
    "files with every pattern of empty positions over <= 4 slots.  The concrete prefix is enumerated by the driver; the LAST operation is symbolic "
    "(which operation, which operand).  After every operation: index coherence (vf/invariants.index_ok), lowest-empty-position rule, nothing else moved, "
    "refusals raise the ownership error and change nothing, re-attaching is a no-op.  Note.mod resolution is decided for the module number over 0..0xFFFF."
)
BOUNDS = {"quick": {"start states": "empty project; loaded projects with all 8 gap patterns over slots 1..3", "k": "prefix of 0..2 seeded operations + 1 symbolic operation (9 kinds)",
                    "note module number": "0..65535 (complete)"},
          "thorough": {"start states": "as quick", "k": "prefix of <= 3 seeded operations + 1 symbolic, 60 prefixes"}}
OUTSIDE = ["histories longer than k", "more than 4 module slots in the start state"]
ASSUMPTIONS = []

SETUP = '''from rv.modules import MODULE_CLASSES
from rv.errors import ModuleOwnershipError, PatternOwnershipError
from vf.invariants import index_ok
from vf import refformat as RF

AMP = MODULE_CLASSES["Amplifier"]
GEN = MODULE_CLASSES["Generator"]


def start(mask):
    """project loaded from a reference-encoded file: Output + slots 1..3, slot i present iff bit i-1 of mask
    (mask < 0: a fresh empty Project())"""
    if mask < 0:
        return Project()
    mods = [RF.enc_output()]
    for i in range(3):
        mods.append(RF.enc_module("Amplifier", flags=0x51, in_project=True) if (mask >> i) & 1 else None)
    if mask & 4 == 0:
        # trailing empty slots are dropped by the loader: keep the layout by a last module
        mods.append(RF.enc_module("Amplifier", flags=0x51, in_project=True))
    return load_bytes(RF.enc_project(modules=mods))


def lowest_gap(p):
    for i, m_ in enumerate(p.modules):
        if m_ is None:
            return i
    return len(p.modules)


def op(p, other, kind, arg):
    """one API operation; returns False iff a rule of the property is violated"""
    before = list(p.modules)
    pats = list(p.patterns)
    if kind in (0, 1, 2, 3):
        want = lowest_gap(p)
        if kind == 0:
            new = AMP()
            r = p.attach_module(new)
            if r is not new:
                return False
        elif kind == 1:
            new = p.new_module(GEN)
        elif kind == 2:
            new = AMP()
            p += new
        else:
            new = AMP()
            new2 = GEN()
            p += [new, new2]
        if p.modules[want] is not new or new.index != want or new.parent is not p:
            return False
        want2 = -1
        if kind == 3:
            # the second module of the list took the lowest gap of the state after the first
            after1 = list(before) + [None] * (want + 1 - len(before))
            after1[want] = new
            want2 = len(after1)
            for i, m_ in enumerate(after1):
                if m_ is None:
                    want2 = i
                    break
            if new2.parent is not p or new2.index != want2 or p.modules[want2] is not new2:
                return False
        # nothing else moved
        for i, m_ in enumerate(before):
            if i != want and i != want2 and p.modules[i] is not m_:
                return False
    elif kind == 4:
        # attach a module that is already attached: no-op
        present = [m_ for m_ in p.modules if m_ is not None]
        m_ = present[arg % len(present)]
        p.attach_module(m_)
        if list(p.modules) != before:
            return False
    elif kind == 5:
        foreign = other.modules[1]
        try:
            if arg % 2:
                p.attach_module(foreign)
            else:
                p += foreign
        except ModuleOwnershipError:
            if list(p.modules) != before or foreign.parent is not other or other.modules[1] is not foreign or foreign.index != 1:
                return False
        else:
            return False
    elif kind == 6:
        pat = Pattern(lines=1, tracks=1) if arg % 2 else PatternClone(source=0)
        i = p.attach_pattern(pat)
        if p.patterns[i] is not pat or pat.project is not p or i != len(pats) or p.patterns[:i] != pats:
            return False
    elif kind == 7:
        foreign = other.patterns[arg // 2 % 2]     # a Pattern or a PatternClone owned by the other project
        try:
            if arg % 2:
                p.attach_pattern(foreign)
            else:
                p += foreign
        except PatternOwnershipError:
            if p.patterns != pats or foreign.project is not other:
                return False
        else:
            return False
    else:
        # save/load in the middle of a history
        return True
    return index_ok(p)
'''


def hist_ob(mask, prefix, oid):
    pre = "\n".join(f"    if not op(p, other, {k}, {a}):\n        return False" + ("\n    p = rt(p)\n    if not index_ok(p):\n        return False" if k == 8 else "") for k, a in prefix)
    body = f"""
    p = start({mask})
    if not index_ok(p):
        return False
    other = Project()
    other.new_module(AMP)
    other.attach_pattern(Pattern(lines=1, tracks=1))
    other.attach_pattern(PatternClone(source=0))
{pre}
    return op(p, other, kind, arg)
"""
    return Ob(oid, build([R("kind", 0, 7), R("arg", 0, 3)], body, setup=SETUP),
              "after every operation modules[i].index == i, parents are the project, position 0 is the Output, a new module takes the lowest empty position (else the end) without moving others, "
              "foreign modules/patterns are refused with the ownership error and nothing changes, re-attaching is a no-op",
              group="history", shape=f"start mask {mask} (-1 = empty project; bit i = slot i+1 present); concrete prefix {prefix} (kind, arg; 8 = save/load)",
              symbolic="last operation: kind 0..7 (attach new / new_module / += module / += list / re-attach / foreign module / attach pattern / foreign pattern), operand selector 0..3", timeout=240)


def obligations(tier, seed):
    rnd = random.Random(seed)
    obs = []
    masks = [-1] + list(range(8))
    kinds = list(range(9))
    for mask in masks:
        obs.append(hist_ob(mask, [], f"k1.m{mask}"))
    n = 10 if tier == "quick" else 60
    for i in range(n):
        mask = rnd.choice(masks)
        ln = rnd.choice([1, 2]) if tier == "quick" else rnd.choice([1, 2, 3])
        prefix = [(rnd.choice(kinds), rnd.randrange(4)) for _ in range(ln)]
        obs.append(hist_ob(mask, prefix, f"k{ln + 1}.{i}"))
    # Note.mod: module number over the whole 16-bit domain
    body = """
    p = start(mask)
    pat = Pattern(lines=1, tracks=1)
    p.attach_pattern(pat)
    note = pat.data[0][0]
    note.module = n
    got = note.mod
    if n == 0:
        return got is None
    if n - 1 < len(p.modules):
        return got is p.modules[n - 1]
    return got is None
"""
    obs.append(Ob("note.mod.get", build([R("mask", 0, 7), U16("n")], body, setup=SETUP), "a note's module reference resolves to the module at position n-1 (or None: 0, empty slot, beyond the list)",
                  group="note", shape="loaded projects with every gap pattern over slots 1..3", symbolic="gap mask 0..7, module number 0..65535", timeout=240))
    body = """
    p = start(mask)
    pat = Pattern(lines=1, tracks=1)
    p.attach_pattern(pat)
    note = pat.data[0][0]
    present = [m_ for m_ in p.modules if m_ is not None]
    m_ = present[sel % len(present)]
    note.mod = m_
    if note.module != m_.index + 1 or note.mod is not m_:
        return False
    loose = AMP()
    try:
        note.mod = loose
    except ModuleOwnershipError:
        return note.mod is m_
    return False
"""
    obs.append(Ob("note.mod.set", build([R("mask", 0, 7), R("sel", 0, 3)], body, setup=SETUP), "Note.mod = module stores position + 1 for an attached module and refuses an unattached one (ModuleOwnershipError, note unchanged)",
                  group="note", shape="loaded projects with every gap pattern", symbolic="gap mask, module selector", timeout=240))
    body = """
    pat = Pattern(lines=1, tracks=1)
    note = pat.data[0][0]
    note.module = n
    try:
        note.mod
    except PatternOwnershipError:
        return True
    return False
"""
    obs.append(Ob("note.mod.unowned", build([U16("n")], body, setup=SETUP), "Note.mod on a pattern without a project raises PatternOwnershipError", group="note", shape="unattached 1x1 pattern",
                  symbolic="module number 0..65535", timeout=60))
    return obs
