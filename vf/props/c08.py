"""C08 — the connection graph and slot order persist across save/load."""
import random

from vf.harness import B, R, Ob, build
from vf.props import c07

EXPLANATION = (
    "C08: (1) the bounded request histories of C07 (concrete prefix + one fully symbolic request) produce link states with freed slots, fan-in/out, "
    "cycles and links to the output; each is saved and loaded with the real writer/reader and every module's four link tables must equal the "
    "originals up to trailing freed slots, with the mutual-consistency invariant holding on the loaded project.  (2) project files produced by the "
    "independent reference encoder with the SLNK entries symbolic and the optional SLnK chunk present / absent / present for some modules."
)
BOUNDS = {"quick": {"histories": "M=3, 3 seeded prefixes of length 1 and 1 of length 2, last request symbolic over all 49 (source subset, target subset) pairs, connect and disconnect",
                    "reference files": "Output + 2 modules, 3 SLNK entries in lists of length <= 2, every entry symbolic over [-1, 3); SLnK present for all modules / none / exactly those SunVox writes it for"},
          "thorough": {"histories": "M=3 with 30 prefixes of length 1 and 20 of length 2; M=4 with 12 prefixes", "reference files": "in-link lists of length <= 3"}}
OUTSIDE = ["histories beyond the bound", "files whose SLNK names a module index that does not exist or an empty slot (malformed: the reader raises; C18 covers failure paths)",
           "files with duplicate entries for one source in a SLNK list"]
ASSUMPTIONS = ["reference files are link-consistent in the sense the format implies: every live SLNK entry names an existing module, no source twice in a list; when SLnK is present it is the slot table SunVox would write (the index of the link in the source's out list); 'present for only some modules' means SunVox's own rule: omitted exactly when all of a module's slots are 0 or -1"]

SETUP = c07.SETUP + '''from vf.invariants import strip_links
from vf import refformat as RF


def tables(m):
    return (strip_links(m.in_links), strip_links(m.in_link_slots), strip_links(m.out_links), strip_links(m.out_link_slots))
'''


def history_ob(M, prefix, oid, timeout=400, disc=None, fs_range=None):
    n = 2**M - 1
    pre_code = "\n".join(f"    request(p, mods, E, {fs}, {ts}, {d}, {form})" for fs, ts, d, form in prefix)
    body = f"""
    p = Project()
    mods = [p.output] + [p.new_module(MODULE_CLASSES["DC Blocker"]) for _ in range({M - 1})]
    E = set()
{pre_code}
    request(p, mods, E, fs, ts, disc, 0)
    if not good(p, E):
        return True   # (a broken pre-state is C07's business, not a persistence failure)
    q = rt(p)
    if len(q.modules) != len(p.modules):
        return False
    for a, b in zip(p.modules, q.modules):
        if tables(a) != tables(b):
            return False
    return links_ok(q) and edges(q) == E and edges_out(q) == E
"""
    params = [R("fs", *(fs_range or (1, n))), R("ts", 1, n), B("disc")]
    if disc is not None:
        body = body.replace("request(p, mods, E, fs, ts, disc, 0)", f"request(p, mods, E, fs, ts, {disc}, 0)")
        params = params[:2]
    return Ob(oid, build(params, body, setup=SETUP),
              "after save/load every module's in/out link tables and slot tables equal the originals up to trailing freed slots, the loaded tables are mutually consistent and the edge set is unchanged (also after a second save/load)",
              group="history", shape=f"M={M}; concrete prefix {prefix}; last request symbolic", symbolic=f"source subset, target subset, connect/disconnect (method-call form; C07 shows the three call forms reach the same states)", timeout=timeout)


def ref_ob(shape, slnk_mode, oid, fix_first=None):
    """shape: list (per module 0..3) of in-link list lengths; entries symbolic in [-1, 4); fix_first: the first entry takes
    this concrete value (the obligation is then one of len(shape)+1 that together cover all values)"""
    params, pre = [], []
    lists = []
    for mi, ln in enumerate(shape):
        names = [f"l{mi}_{k}" for k in range(ln)]
        for nm in names:
            params.append(R(nm, -1, len(shape) - 1))
        # no source twice in a list
        for a in range(ln):
            for b in range(a + 1, ln):
                pre.append(f"({names[a]} == -1 or {names[a]} != {names[b]})")
        lists.append(names)
    mods = []
    for mi, names in enumerate(lists):
        ll = "[" + ", ".join(names) + "]"
        mods.append(ll)
    first_line = ""
    if fix_first is not None:
        fname = params[0][0]
        params = params[1:]
        import re as _re
        pre = [_re.sub(r"\b%s\b" % fname, "(%d)" % fix_first, x) for x in pre]
        first_line = f"{fname} = {fix_first}"
    body = f"""
    {first_line}
    L = [{', '.join(mods)}]
    N = {len(shape)}
    # the slot table SunVox writes: position of this link in the source's out list, sources' out
    # lists being filled in module order (the documented meaning of SLnK)
    outs = [[] for _ in range(N)]
    slots = [[-1] * len(L[i]) for i in range(N)]
    for i in list(range(1, N)) + [0]:
        for k in range(len(L[i])):
            s = L[i][k]
            if s != -1:
                slots[i][k] = len(outs[s])
                outs[s].append(i)
    mode = {slnk_mode!r}
    chunks = []
    for i in range(N):
        # "sunvox": what SunVox itself writes -- SLnK only for a module with a slot other than 0/-1
        with_slots = mode == "all" or (mode == "sunvox" and any(x != 0 and x != -1 for x in slots[i]))
        kw = dict(links=L[i], link_slots=(slots[i] if with_slots else None))
        if i == 0:
            chunks.append(RF.enc_output(**kw))
        else:
            chunks.append(RF.enc_module("Amplifier", flags=0x51, in_project=True, **kw))
    data = RF.enc_project(modules=chunks)
    q = load_bytes(data)
    if len(q.modules) != N or not links_ok(q):
        return False
    want = set()
    for i in range(N):
        for s in L[i]:
            if s != -1:
                want.add((s, i))
    if edges(q) != want or edges_out(q) != want:
        return False
    for i in range(N):
        if strip_links(q.modules[i].in_links) != strip_links(L[i]):
            return False
    return True
"""
    return Ob(oid, build(params, body, setup=SETUP, extra_pre=pre),
              f"a reference-encoded project (SLnK {slnk_mode}) loads with mutually consistent link tables whose directed graph and in-link order equal the file's SLNK content, and stays so after save/load",
              group="reference", shape=f"Output + {len(shape) - 1} Amplifiers; in-link list lengths {shape}; SLnK present for: {slnk_mode}",
              symbolic=f"every SLNK entry over -1..{len(shape) - 1} (no source twice in a list)" + (f"; first entry = {fix_first} (one of {len(shape) + 1} obligations covering its values)" if fix_first is not None else ""), timeout=400)


def obligations(tier, seed):
    rnd = random.Random(seed)
    obs = []
    M = 3
    reqs = c07.all_requests(M)
    must = [r for r in reqs if bin(r[0]).count("1") > 1 or bin(r[1]).count("1") > 1]
    n1, n2 = (3, 1) if tier == "quick" else (30, 20)
    for i in range(n1):
        a = rnd.choice(must if i % 2 == 0 else reqs)
        for d in (False, True):
            obs.append(history_ob(M, [(a[0], a[1], False, rnd.randrange(3))], f"hist.k2.{i}.{'dis' if d else 'con'}", disc=d))
    for i in range(n2):
        a, b_ = rnd.choice(must), rnd.choice(reqs)
        for d in (False, True):
            obs.append(history_ob(M, [(a[0], a[1], False, rnd.randrange(3)), (b_[0], b_[1], b_[2], rnd.randrange(3))], f"hist.k3.{i}.{'dis' if d else 'con'}", disc=d))
    # states in which a module has a freed in-slot AND a live link on a non-zero out-slot of its source (the case in which
    # the optional slot chunk must be written): a -> out, out -> b, a -> b, then any request (e.g. ~out -> b)
    for j, pre in enumerate([[(2, 1, False, 0), (1, 4, False, 0), (2, 4, False, 0)], [(2, 4, False, 0), (2, 1, False, 0), (4, 1, False, 0)]]):
        for d in (False, True):
            obs.append(history_ob(M, pre, f"hist.freed.{j}.{'dis' if d else 'con'}", disc=d))
    if tier == "thorough":
        # M = 4: 15 x 15 x 2 last requests per prefix is more than one run explores in the budget (measured: 900 s not enough),
        # so the source subset is cut into 3 segments and connect/disconnect is fixed per obligation; together they cover all.
        reqs4 = c07.all_requests(4)
        for i in range(6):
            a = rnd.choice(reqs4)
            for lo in (1, 6, 11):
                for d in (False, True):
                    obs.append(history_ob(4, [(a[0], a[1], False, rnd.randrange(3))], f"hist.M4.{i}.fs{lo}.{'dis' if d else 'con'}", timeout=900, disc=d, fs_range=(lo, lo + 4)))
    shapes = [[2, 1, 0], [1, 1, 1], [0, 2, 1]] if tier == "quick" else [[2, 1, 0], [1, 1, 1], [0, 2, 1], [2, 1, 1, 0], [1, 2, 0, 1], [3, 0, 0], [1, 1, 1, 1]]
    for si, sh in enumerate(shapes):
        for mode in ("all", "none", "sunvox"):
            if len(sh) >= 4 and sum(sh) >= 4:
                # 5^4 entry combinations do not finish in one run (measured): one obligation per value of the first entry
                for fv in range(-1, len(sh)):
                    obs.append(ref_ob(sh, mode, f"ref.{si}.{mode}.f{fv + 1}", fix_first=fv))
            else:
                obs.append(ref_ob(sh, mode, f"ref.{si}.{mode}"))
    return obs
