import rv.api
import chplug, logging; logging.disable(logging.CRITICAL)
from rv.api import read_sunvox_file
from symio import PyFile

def u32(v): return list(v.to_bytes(4, "little"))
def s32(v): return list(v.to_bytes(4, "little", signed=True))
def ck(cid, payload): return list(cid) + u32(len(payload)) + list(payload)

def ref_amp(vol: int, bal: int, fin: int, j0: int, j1: int) -> bool:
    """
    pre: 0 <= vol < 2**31 and 0 <= bal <= 256 and -2**31 <= fin < 2**31 and 0 <= j0 < 256 and 0 <= j1 < 256
    post: _
    """
    for ins in (5,):
        chunks = [
            ck(b"SSYN", b""), ck(b"VERS", [1, 2, 1, 2]),
            ck(b"SFFF", u32(0x51)), ck(b"SNAM", list(b"Amp".ljust(32, b"\0"))), ck(b"STYP", list(b"Amplifier\0")),
            ck(b"SFIN", s32(fin)), ck(b"SREL", s32(0)), ck(b"SSCL", u32(256)), ck(b"SCOL", [1, 2, 3]),
            ck(b"SMII", u32(0)), ck(b"SMIC", u32(0)), ck(b"SMIB", s32(-1)), ck(b"SMIP", s32(-1)),
            ck(b"CVAL", u32(vol)), ck(b"CVAL", u32(bal)), ck(b"SEND", b""),
        ]
        chunks.insert(ins, ck(b"ZZZZ", [j0, j1]))
        data = [b for c in chunks for b in c]
        s = read_sunvox_file(PyFile(data))
        mod = s.module
        ok = mod.balance == bal - 128 and mod.mod_finetune == fin and mod.dc_offset == 0 and mod.color == (1, 2, 3)
        if vol <= 1024:
            ok = ok and mod.volume == vol
        if not (ok and type(mod).__name__ == "Amplifier"):
            return False
    return True
