#!/venv/bin/python
# Replay of a solver counterexample against the real library: no CrossHair, no stubs, real io.BytesIO.
# property C09  obligation range.ctor.Distortion
# Distortion, every fixed-range controller, constructor keyword: accepted iff min <= v <= max (then reads back v), otherwise ControllerValueError
# exit 1 = the property fails for this input on the current /repo tree; exit 0 = it holds.
import os, sys
os.environ["VF_REPLAY"] = "1"
sys.path.insert(0, "/verif")
ARGS = (0,)
KWARGS = {}
HARNESS = 'from vf.prelude import *\nfrom rv.modules import MODULE_CLASSES\nfrom rv.errors import ControllerValueError, override_raise_controller_value_errors\nCLS = MODULE_CLASSES[\'Distortion\']\n\n\ndef h(v: int) -> bool:\n    """\n    post: _\n    """\n    try:\n        mod = CLS(volume=v)\n    except ControllerValueError:\n        if 0 <= v <= 256:\n            return False\n    else:\n        if not (0 <= v <= 256) or mod.volume != v:\n            return False\n    try:\n        mod = CLS(power=v)\n    except ControllerValueError:\n        if 0 <= v <= 256:\n            return False\n    else:\n        if not (0 <= v <= 256) or mod.power != v:\n            return False\n    try:\n        mod = CLS(bit_depth=v)\n    except ControllerValueError:\n        if 1 <= v <= 16:\n            return False\n    else:\n        if not (1 <= v <= 16) or mod.bit_depth != v:\n            return False\n    try:\n        mod = CLS(freq=v)\n    except ControllerValueError:\n        if 0 <= v <= 44100:\n            return False\n    else:\n        if not (0 <= v <= 44100) or mod.freq != v:\n            return False\n    try:\n        mod = CLS(noise=v)\n    except ControllerValueError:\n        if 0 <= v <= 256:\n            return False\n    else:\n        if not (0 <= v <= 256) or mod.noise != v:\n            return False\n    return True\n\n\ndef h__reach(v: int) -> bool:\n    """\n    post: _\n    """\n    h(v)\n    return False\n'
ns = {"__name__": "vf_replay"}
exec(compile(HARNESS, "<harness range.ctor.Distortion>", "exec"), ns)
try:
    ok = ns['h'](*ARGS, **KWARGS)
except Exception as e:
    import traceback; traceback.print_exc()
    print("replay: raised", type(e).__name__, e)
    sys.exit(1)
print("replay: h(*%r, **%r) returned %r" % (ARGS, KWARGS, ok))
sys.exit(0 if ok else 1)
