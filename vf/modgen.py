"""Harness pieces generated from the *live* class metadata of rv (MODULE_CLASSES, cls.controllers,
cls.options): symbolic parameters with their documented domains and the code that applies them
to a module through the public API.  Regenerated on every run, so an edit to a range, an enum,
an option bit or a default changes the harness without any manual step."""
from __future__ import annotations

import random
from dataclasses import dataclass, field
from enum import Enum
from typing import List

import rv.api  # noqa: F401
from rv.controller import CompactRange, DependentRange, NoOffsetRange, Range, WarnOnlyRange
from rv.modules import MODULE_CLASSES

from vf.harness import B, I32, R, U8, U16, U32

SETUP = "from rv.modules import MODULE_CLASSES\nfrom vf.invariants import *\n"


def attachable_types():
    return [t for t in MODULE_CLASSES if t != "Output"]


def cls_expr(mtype):
    return f"MODULE_CLASSES[{mtype!r}]"


def ctl_kind(c):
    t = c.value_type
    if isinstance(t, DependentRange):
        return "dep"
    if isinstance(t, CompactRange):
        return "compact"
    if isinstance(t, NoOffsetRange):
        return "nooffset"
    if isinstance(t, WarnOnlyRange):
        return "warnonly"
    if isinstance(t, Range):
        return "range"
    if isinstance(t, type) and issubclass(t, Enum):
        return "enum"
    if t is bool:
        return "bool"
    if t is None:
        return "none"
    return "other"


@dataclass
class Item:
    """one settable value of a module: how to make it symbolic, how to set it, how many ways
    the real code forks on it (bool: 2, signed packed int: 2, enum: #members, else 1)"""
    key: str  # attribute / description
    param: tuple  # (name, type, pre)
    line: str  # code with {v} for the value expression
    forks: int = 1
    concrete: object = None  # callable(rnd) -> python literal used when the item is not symbolic
    pre_lines: tuple = ()  # lines that must precede (imports)
    note: str = ""


@dataclass
class Gen:
    params: list = field(default_factory=list)
    pre: list = field(default_factory=list)
    lines: List[str] = field(default_factory=list)
    notes: List[str] = field(default_factory=list)
    nsym: int = 0

    def code(self, indent=0):
        return "\n".join(" " * indent + l for l in self.lines)


def items_controllers(mtype, var="mod", pfx="c_", unit_choice=None, rnd=None, only=None, enums_symbolic=True) -> List[Item]:
    """one Item per controller, in definition order (units before their dependants)"""
    rnd = rnd or random.Random(0)
    cls = MODULE_CLASSES[mtype]
    out = []
    items = [(n, c) for n, c in cls.controllers.items() if not n.startswith("user_defined_")]
    if only is not None:
        items = [(n, c) for n, c in items if n in only]
    unit_names = {c.value_type.ctl_name for _, c in items if ctl_kind(c) == "dep"}
    chosen = {}
    first, later = [], []
    for n, c in items:
        (later if ctl_kind(c) == "dep" else first).append((n, c))
    for n, c in first:
        k = ctl_kind(c)
        p = pfx + n
        if k in ("range", "compact", "nooffset", "warnonly"):
            t = c.value_type
            out.append(Item(n, R(p, t.min, t.max), f"{var}.{n} = {{v}}", 1, (lambda rnd, t=t: rnd.choice([t.min, t.max, rnd.randint(t.min, t.max)]))))
        elif k == "bool":
            out.append(Item(n, B(p), f"{var}.{n} = {{v}}", 2, lambda rnd: rnd.choice([True, False])))
        elif k == "enum":
            t = c.value_type
            members = list(t)
            vt = f"{cls_expr(mtype)}.controllers[{n!r}].value_type"
            if n in unit_names:
                mem = (unit_choice or {}).get(n) or rnd.choice(members)
                chosen[n] = mem
                out.append(Item(n, None, f"{var}.{n} = {vt}({mem.value})", 1, None, note=f"{n}={mem.name} (unit member: shape)"))
            else:
                vals = sorted(m_.value for m_ in members)
                contiguous = vals == list(range(vals[0], vals[-1] + 1))
                pre = f"{vals[0]} <= {p} <= {vals[-1]}" if contiguous else "(" + " or ".join(f"{p} == {v}" for v in vals) + ")"
                out.append(Item(n, (p, "int", pre) if enums_symbolic else None, f"{var}.{n} = {vt}({{v}})", len(vals),
                                (lambda rnd, vals=vals: rnd.choice(vals)), note=f"{n}: {len(vals)} members"))
    for n, c in later:
        t = c.value_type
        unit = chosen.get(t.ctl_name)
        r = t.range_map[unit] if unit is not None else t.default
        p = pfx + n
        out.append(Item(n, R(p, r.min, r.max), f"{var}.{n} = {{v}}", 1, (lambda rnd, r=r: rnd.choice([r.min, r.max, rnd.randint(r.min, r.max)])),
                        note=f"{n} in {r.min}..{r.max} under {t.ctl_name}={getattr(unit, 'name', None)}"))
    return out


def unit_controllers(mtype):
    cls = MODULE_CLASSES[mtype]
    units = sorted({c.value_type.ctl_name for c in cls.controllers.values() if ctl_kind(c) == "dep"})
    return {u: list(cls.controllers[u].value_type) for u in units}


def items_options(mtype, var="mod", pfx="o_", skip=()) -> List[Item]:
    cls = MODULE_CLASSES[mtype]
    out = []
    for n, o in cls.options.items():
        if n in skip:
            continue
        p = pfx + n
        if o.size == 1:
            out.append(Item("opt." + n, B(p), f"{var}.{n} = {{v}}", 2, lambda rnd: rnd.choice([True, False])))
        else:
            lo, hi = 0, 2**o.size - 1
            if o.min is not None and o.max is not None:
                lo, hi = o.min, o.max
            out.append(Item("opt." + n, R(p, lo, hi), f"{var}.{n} = {{v}}", 1, (lambda rnd, lo=lo, hi=hi: rnd.choice([lo, hi, rnd.randint(lo, hi)]))))
    return out


def items_common(mtype, var="mod", pfx="k_", in_project=True) -> List[Item]:
    """common module header fields at their documented widths (docs/sunvox-file-format.rst)"""
    cls = MODULE_CLASSES[mtype]
    ri = lambda lo, hi: (lambda rnd: rnd.choice([lo, hi, rnd.randint(lo, hi)]))
    out = [
        Item("flags", U32(pfx + "flags"), f"{var}.flags = {cls.default_flags} | {{v}}", 1, ri(0, 2**32 - 1)),
        Item("finetune", I32(pfx + "fin"), f"{var}.mod_finetune = {{v}}", 2, ri(-2**31, 2**31 - 1)),
        Item("relative_note", I32(pfx + "rel"), f"{var}.mod_relative_note = {{v}}", 2, ri(-2**31, 2**31 - 1)),
        Item("scale", U32(pfx + "scale"), f"{var}.scale = {{v}}", 1, ri(0, 2**32 - 1)),
    ]
    # a type whose controller list reuses a common attribute name (Smooth.scale) exposes the
    # controller under that name; the common field is then not separately settable (see C09)
    out = [it for it in out if it.key not in cls.controllers]
    for ch in "rgb":
        out.append(Item("color." + ch, U8(pfx + ch), f"{var}.color = tuple({{v}} if _i == {'rgb'.index(ch)} else _c for _i, _c in enumerate({var}.color))", 1, ri(0, 255)))
    if in_project:
        out += [
            Item("x", I32(pfx + "x"), f"{var}.x = {{v}}", 2, ri(-2**31, 2**31 - 1)),
            Item("y", I32(pfx + "y"), f"{var}.y = {{v}}", 2, ri(-2**31, 2**31 - 1)),
            Item("layer", I32(pfx + "layer"), f"{var}.layer = {{v}}", 2, ri(-2**31, 2**31 - 1)),
            Item("visualization", U32(pfx + "vis"), f"{var}.visualization = {{v}}", 1, ri(0, 2**32 - 1)),
        ]
    return out


def items_midi(mtype, var="mod", pfx="i_") -> List[Item]:
    ri = lambda lo, hi: (lambda rnd: rnd.choice([lo, hi, rnd.randint(lo, hi)]))
    return [
        Item("midi_in_always", B(pfx + "always"), f"{var}.midi_in_always = {{v}}", 2, lambda rnd: rnd.choice([True, False])),
        Item("midi_in_channel", R(pfx + "inch", 0, 2**31 - 1), f"{var}.midi_in_channel = {{v}}", 1, ri(0, 2**31 - 1)),
        Item("midi_out_channel", U32(pfx + "outch"), f"{var}.midi_out_channel = {{v}}", 1, ri(0, 2**32 - 1)),
        Item("midi_out_bank", I32(pfx + "bank"), f"{var}.midi_out_bank = {{v}}", 2, ri(-2**31, 2**31 - 1)),
        Item("midi_out_program", I32(pfx + "prog"), f"{var}.midi_out_program = {{v}}", 2, ri(-2**31, 2**31 - 1)),
    ]


def items_cmid(mtype, var="mod", pfx="d_", rnd=None, max_ctls=8) -> List[Item]:
    """controller MIDI bindings: channel u8 and parameter u16 symbolic; message type / slope seeded members"""
    from rv.cmidmap import MidiMessageType, Slope
    rnd = rnd or random.Random(0)
    cls = MODULE_CLASSES[mtype]
    out = []
    names = [n for n, c in cls.controllers.items() if c._attached and not n.startswith("user_defined_")]
    if len(names) > max_ctls:
        names = names[:2] + rnd.sample(names[2:-1], max_ctls - 3) + names[-1:]
    ri = lambda lo, hi: (lambda rnd: rnd.choice([lo, hi, rnd.randint(lo, hi)]))
    for n in names:
        mt = rnd.choice(list(MidiMessageType))
        sl = rnd.choice(list(Slope))
        cm = f"{var}.controller_midi_maps[{n!r}]"
        out.append(Item(f"cmid.{n}.type", None, f"{cm}.message_type = __import__('rv.cmidmap').cmidmap.MidiMessageType({mt.value}); {cm}.slope = __import__('rv.cmidmap').cmidmap.Slope({sl.value})", 1, None))
        out.append(Item(f"cmid.{n}.channel", U8(pfx + n + "_ch"), f"{cm}.channel = {{v}}", 1, ri(0, 255)))
        out.append(Item(f"cmid.{n}.parameter", U16(pfx + n + "_par"), f"{cm}.message_parameter = {{v}}", 1, ri(0, 65535)))
    return out


def pack(items: List[Item], max_forks=16, max_params=30) -> List[List[int]]:
    """split item indices into chunks whose fork product and parameter count stay bounded"""
    chunks, cur, prod = [], [], 1
    for i, it in enumerate(items):
        if it.param is None:
            continue
        f = max(1, it.forks)
        if cur and (prod * f > max_forks or len(cur) >= max_params):
            chunks.append(cur)
            cur, prod = [], 1
        cur.append(i)
        prod *= f
    if cur:
        chunks.append(cur)
    return chunks


def render(items: List[Item], symbolic: List[int], rnd) -> Gen:
    """all items applied in order; those in `symbolic` take their parameter, the others a seeded
    concrete in-domain value (part of the obligation's shape)"""
    g = Gen()
    sym = set(symbolic)
    for i, it in enumerate(items):
        if it.param is not None and i in sym:
            g.params.append(it.param)
            g.lines.append(it.line.format(v=it.param[0]))
            g.nsym += 1
        elif it.concrete is not None:
            g.lines.append(it.line.format(v=repr(it.concrete(rnd))))
        else:
            g.lines.append(it.line)
        if it.note and (i in sym or it.param is None):
            g.notes.append(it.note)
    return g
