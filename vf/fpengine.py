"""Engine F — AST -> SMT (QF_BVFP) translation of rv's floating-point kernels.

CrossHair models Python floats as reals most of the time, which is unsound for the two kernels whose
*rounding* is the subject of C10 and C20 (Controller.pattern_value, multictl.convert_value).  For
these functions the source is read from /repo at run time (inspect.getsource on the imported
function), parsed with `ast`, and executed by the small symbolic interpreter below:

  Python int      -> W-bit bit-vector (W = 40, retried at 64), with a side obligation for every + - * that the mathematical
                     result fits (so the fixed width is *proved* adequate, never assumed)
  int / int, int / float, float / float -> fp.div RNE on Float64; an int operand is converted exactly
                     (side obligation |x| <= 2^53)
  float * int, float +- int/float        -> fp.mul / fp.add / fp.sub RNE
  int(x)          -> fp.to_sbv RTZ (side obligation: |x| < 2^62, x not NaN/inf)
  min / max       -> ite on the comparison Python performs
  //              -> bvudiv on operands proved non-negative (side obligation)
  `if` on a concrete condition -> that branch; on a symbolic condition -> both branches, merged with ite
  list[index]     -> concrete list and concrete index only, or a *hinted* index: the caller pins the
                     symbolic index to a constant k, the equality index == k becomes an assumption of
                     the query (the union over all k is the caller's business)

Anything else raises CannotEncode -> the obligation is inconclusive, never "verified something else".
Every query is decided by z3 (wheel) and by cvc5 (wheel, parsing the SMT-LIB2 text z3 prints); sat
answers are replayed on the real function before they are believed.
"""
from __future__ import annotations

import ast
import inspect
import json
import os
import subprocess
import sys
import textwrap
import time

import z3

W = 64
F64 = z3.Float64()
RNE = z3.RNE()
RTZ = z3.RTZ()


class CannotEncode(Exception):
    pass


class WidthTooSmall(Exception):
    pass


class SInt:
    def __init__(self, t):
        self.t = t


class SFloat:
    def __init__(self, t, intlike=False):
        self.t = t
        # heuristic only: "this float probably holds an integer" (result of float //, +/-/* of such a value with an int).  It marks
        # candidate cut points for staged decisions; soundness never rests on it (the cut proves integrality as a side obligation).
        self.intlike = intlike


class SBool:
    def __init__(self, t):
        self.t = t


class Ctx:
    def __init__(self):
        self.obligations = []  # (description, z3 bool that must hold)
        self.assumptions = []

    def need(self, desc, cond):
        self.obligations.append((desc, cond))


def set_width(w):
    global W
    W = w


def bv(v):
    return z3.BitVecVal(v, W)


def to_int_term(x):
    if isinstance(x, SInt):
        return x.t
    if isinstance(x, bool):
        return bv(int(x))
    if isinstance(x, int):
        if not (-(2 ** (W - 2)) < x < 2 ** (W - 2)):
            raise WidthTooSmall("integer constant %d needs more than %d bits" % (x, W))
        return bv(x)
    raise CannotEncode("not an int: %r" % (x,))


def to_float_term(ctx, x):
    if isinstance(x, SFloat):
        return x.t
    if isinstance(x, float):
        return z3.FPVal(x, F64)
    if isinstance(x, int) and not isinstance(x, bool):
        if abs(x) > 2**53:
            raise CannotEncode("int constant not exactly representable")
        return z3.FPVal(float(x), F64)
    if isinstance(x, SInt):
        if W > 54:
            ctx.need("int -> float conversion exact (|x| <= 2^53)", z3.And(x.t >= bv(-(2**53)), x.t <= bv(2**53)))
        return z3.fpSignedToFP(RNE, x.t, F64)
    raise CannotEncode("not a number: %r" % (x,))


def is_sym(x):
    return isinstance(x, (SInt, SFloat, SBool))


def is_floaty(x):
    return isinstance(x, (SFloat, float))


def binop(ctx, op, a, b):
    if not is_sym(a) and not is_sym(b):
        # concrete: let Python do it (same semantics as the real function)
        if isinstance(op, ast.Add):
            return a + b
        if isinstance(op, ast.Sub):
            return a - b
        if isinstance(op, ast.Mult):
            return a * b
        if isinstance(op, ast.Div):
            return a / b
        if isinstance(op, ast.FloorDiv):
            return a // b
        raise CannotEncode("operator %s" % type(op).__name__)
    if isinstance(op, ast.Div):
        fb = to_float_term(ctx, b)
        fa = to_float_term(ctx, a)
        ctx.need("division by zero excluded", z3.Not(z3.fpIsZero(fb)))
        return SFloat(z3.fpDiv(RNE, fa, fb))
    if is_floaty(a) or is_floaty(b):
        fa, fb = to_float_term(ctx, a), to_float_term(ctx, b)
        il = all((isinstance(x_, SFloat) and x_.intlike) or isinstance(x_, SInt) or (isinstance(x_, int) and not isinstance(x_, bool)) for x_ in (a, b))
        if isinstance(op, ast.Add):
            return SFloat(z3.fpAdd(RNE, fa, fb), intlike=il)
        if isinstance(op, ast.Sub):
            return SFloat(z3.fpSub(RNE, fa, fb), intlike=il)
        if isinstance(op, ast.Mult):
            return SFloat(z3.fpMul(RNE, fa, fb), intlike=il)
        if isinstance(op, ast.FloorDiv) and not is_sym(b) and float(b) > 0 and float(b) == 2.0 ** round(__import__("math").log2(float(b))):
            # float // 2^k : the quotient is exact (power-of-two divisor, no underflow for |a| >= 2^-900 or a == 0), so floor(a / b) is Python's result
            ctx.need("float // power of two: dividend is 0 or not tiny", z3.Or(z3.fpIsZero(fa), z3.fpGT(z3.fpAbs(fa), z3.FPVal(2.0**-900, F64))))
            return SFloat(z3.fpRoundToIntegral(z3.RTN(), z3.fpDiv(RNE, fa, fb)), intlike=True)
        raise CannotEncode("float operator %s" % type(op).__name__)
    ia, ib = to_int_term(a), to_int_term(b)
    if isinstance(op, ast.Add):
        ctx.need("%d-bit + does not overflow" % W, z3.And(z3.BVAddNoOverflow(ia, ib, True), z3.BVAddNoUnderflow(ia, ib)))
        return SInt(ia + ib)
    if isinstance(op, ast.Sub):
        ctx.need("%d-bit - does not overflow" % W, z3.And(z3.BVSubNoOverflow(ia, ib), z3.BVSubNoUnderflow(ia, ib, True)))
        return SInt(ia - ib)
    if isinstance(op, ast.Mult):
        ctx.need("%d-bit * does not overflow" % W, z3.And(z3.BVMulNoOverflow(ia, ib, True), z3.BVMulNoUnderflow(ia, ib)))
        return SInt(ia * ib)
    if isinstance(op, ast.FloorDiv):
        ctx.need("// operands non-negative, divisor positive", z3.And(ia >= bv(0), ib > bv(0)))
        return SInt(z3.UDiv(ia, ib))
    raise CannotEncode("int operator %s" % type(op).__name__)


def compare(ctx, op, a, b):
    if not is_sym(a) and not is_sym(b):
        return {ast.Lt: a < b, ast.LtE: a <= b, ast.Gt: a > b, ast.GtE: a >= b, ast.Eq: a == b, ast.NotEq: a != b}[type(op)]
    if is_floaty(a) or is_floaty(b):
        fa, fb = to_float_term(ctx, a), to_float_term(ctx, b)
        m = {ast.Lt: z3.fpLT, ast.LtE: z3.fpLEQ, ast.Gt: z3.fpGT, ast.GtE: z3.fpGEQ, ast.Eq: z3.fpEQ}
        if type(op) is ast.NotEq:
            return SBool(z3.Not(z3.fpEQ(fa, fb)))
        return SBool(m[type(op)](fa, fb))
    ia, ib = to_int_term(a), to_int_term(b)
    m = {ast.Lt: lambda x, y: x < y, ast.LtE: lambda x, y: x <= y, ast.Gt: lambda x, y: x > y, ast.GtE: lambda x, y: x >= y, ast.Eq: lambda x, y: x == y, ast.NotEq: lambda x, y: x != y}
    return SBool(m[type(op)](ia, ib))


def ite(ctx, c, a, b):
    """value-level if-then-else on a symbolic condition"""
    if a is b:
        return a
    if is_floaty(a) or is_floaty(b):
        return SFloat(z3.If(c, to_float_term(ctx, a), to_float_term(ctx, b)))
    if isinstance(a, (SInt, int)) and isinstance(b, (SInt, int)) and not isinstance(a, bool) and not isinstance(b, bool):
        return SInt(z3.If(c, to_int_term(a), to_int_term(b)))
    if isinstance(a, (SBool, bool)) and isinstance(b, (SBool, bool)):
        ta = a.t if isinstance(a, SBool) else z3.BoolVal(a)
        tb = b.t if isinstance(b, SBool) else z3.BoolVal(b)
        return SBool(z3.If(c, ta, tb))
    raise CannotEncode("cannot merge %r and %r" % (type(a), type(b)))


def fold_bool(c):
    """a condition over constants (concrete-input validation runs) becomes a Python bool"""
    if isinstance(c, SBool):
        f = z3.simplify(c.t)
        if z3.is_true(f):
            return True
        if z3.is_false(f):
            return False
    return c


class Return(Exception):
    def __init__(self, v):
        self.v = v


class Interp:
    def __init__(self, ctx, func, hints=None, globals_=None, cut=None, float_cuts=False):
        self.ctx = ctx
        self.cut = cut  # optional hook(name, lineno, SInt) -> replacement value (stage-wise decisions)
        self.float_cuts = float_cuts  # also cut at float-typed assignments whose value is (provably) an integer
        src = textwrap.dedent(inspect.getsource(func))
        self.tree = ast.parse(src).body[0]
        self.hints = hints or {}
        self.globals = globals_ if globals_ is not None else getattr(func, "__globals__", {})

    def run(self, env):
        try:
            self.block(self.tree.body, env)
        except Return as r:
            return r.v
        return None

    def block(self, stmts, env):
        for i, st in enumerate(stmts):
            if isinstance(st, ast.Expr) and isinstance(st.value, ast.Constant):
                continue  # docstring
            if isinstance(st, ast.Assign):
                if len(st.targets) != 1:
                    raise CannotEncode("multiple assignment targets")
                v = self.expr(st.value, env)
                self.assign(st.targets[0], v, env)
                if self.cut is not None and isinstance(st.targets[0], ast.Name) and isinstance(v, SInt):
                    others = [k for k, x in env.items() if k != st.targets[0].id and is_sym(x)]
                    if not others:
                        env[st.targets[0].id] = self.cut(st.targets[0].id, st.lineno, v)
                elif self.cut is not None and self.float_cuts and isinstance(st.targets[0], ast.Name) and isinstance(v, SFloat) and v.intlike:
                    others = [k for k, x in env.items() if k != st.targets[0].id and is_sym(x)]
                    if not others:
                        # the float is handed over as the integer it holds; that it holds one (and that the integer fits) is a
                        # side obligation proved for every input of the stage, so float(int(v)) == v and the next stage may start
                        # from an integer variable converted back to float
                        iv = z3.fpToSBV(RTZ, v.t, z3.BitVecSort(W))
                        self.ctx.need("float cut point %s (line %d) holds an integer that fits %d bits" % (st.targets[0].id, st.lineno, W),
                                      z3.And(z3.Not(z3.fpIsNaN(v.t)), z3.Not(z3.fpIsInf(v.t)), z3.fpLT(z3.fpAbs(v.t), z3.FPVal(2.0 ** min(W - 2, 52), F64)),
                                             z3.fpEQ(z3.fpSignedToFP(RNE, iv, F64), v.t)))
                        rep = self.cut(st.targets[0].id, st.lineno, SInt(iv))
                        if isinstance(rep, SInt):
                            env[st.targets[0].id] = SFloat(z3.fpSignedToFP(RNE, rep.t, F64), intlike=True)
                        else:
                            env[st.targets[0].id] = float(int(rep))
            elif isinstance(st, ast.AugAssign):
                if not isinstance(st.target, ast.Name):
                    raise CannotEncode("augmented assignment target")
                env[st.target.id] = binop(self.ctx, st.op, env[st.target.id], self.expr(st.value, env))
            elif isinstance(st, ast.Return):
                raise Return(self.expr(st.value, env) if st.value is not None else None)
            elif isinstance(st, ast.If):
                c = fold_bool(self.expr(st.test, env))
                rest = stmts[i + 1:]
                if isinstance(c, SBool):
                    # both branches, each followed by the rest of the block; merge the returned values
                    e1, e2 = dict(env), dict(env)
                    r1 = self.branch(st.body + rest, e1)
                    r2 = self.branch(st.orelse + rest, e2)
                    raise Return(ite(self.ctx, c.t, r1, r2))
                self.block(st.body if c else st.orelse, env)
            elif isinstance(st, ast.Pass):
                pass
            else:
                raise CannotEncode("statement %s" % type(st).__name__)

    def branch(self, stmts, env):
        try:
            self.block(stmts, env)
        except Return as r:
            return r.v
        raise CannotEncode("a symbolic branch falls off the end of the function")

    def assign(self, target, v, env):
        if isinstance(target, ast.Name):
            env[target.id] = v
        elif isinstance(target, ast.Tuple) and isinstance(v, (tuple, list)) and len(v) == len(target.elts):
            for t, x in zip(target.elts, v):
                self.assign(t, x, env)
        else:
            raise CannotEncode("assignment target %s" % type(target).__name__)

    def expr(self, e, env):
        ctx = self.ctx
        if isinstance(e, ast.Constant):
            return e.value
        if isinstance(e, ast.Name):
            if e.id in env:
                return env[e.id]
            if e.id in self.globals:
                return self.globals[e.id]
            import builtins
            if hasattr(builtins, e.id):
                return getattr(builtins, e.id)
            raise CannotEncode("unknown name %s" % e.id)
        if isinstance(e, ast.Attribute):
            base = self.expr(e.value, env)
            if is_sym(base):
                raise CannotEncode("attribute of a symbolic value")
            return getattr(base, e.attr)
        if isinstance(e, ast.BinOp):
            return binop(ctx, e.op, self.expr(e.left, env), self.expr(e.right, env))
        if isinstance(e, ast.UnaryOp):
            v = self.expr(e.operand, env)
            if isinstance(e.op, ast.USub):
                return binop(ctx, ast.Sub(), 0, v) if is_sym(v) else -v
            if isinstance(e.op, ast.Not):
                return SBool(z3.Not(v.t)) if isinstance(v, SBool) else (not v)
            raise CannotEncode("unary operator")
        if isinstance(e, ast.Compare):
            if len(e.ops) != 1:
                raise CannotEncode("chained comparison")
            a, b = self.expr(e.left, env), self.expr(e.comparators[0], env)
            op = e.ops[0]
            if isinstance(op, (ast.Is, ast.IsNot)):
                if is_sym(a) or is_sym(b):
                    r = False  # a number is never None / never identical to a concrete singleton
                    if not (a is None or b is None):
                        raise CannotEncode("identity comparison of symbolic values")
                else:
                    r = a is b
                return r if isinstance(op, ast.Is) else not r
            return compare(ctx, op, a, b)
        if isinstance(e, ast.BoolOp):
            vals = [self.expr(v, env) for v in e.values]
            if any(isinstance(v, SBool) for v in vals):
                ts = [v.t if isinstance(v, SBool) else z3.BoolVal(bool(v)) for v in vals]
                return SBool(z3.And(ts) if isinstance(e.op, ast.And) else z3.Or(ts))
            if any(is_sym(v) for v in vals):
                raise CannotEncode("boolean operator on numbers")
            r = vals[0]
            for v in vals[1:]:
                r = (r and v) if isinstance(e.op, ast.And) else (r or v)
            return r
        if isinstance(e, ast.IfExp):
            c = fold_bool(self.expr(e.test, env))
            if isinstance(c, SBool):
                return ite(ctx, c.t, self.expr(e.body, env), self.expr(e.orelse, env))
            return self.expr(e.body, env) if c else self.expr(e.orelse, env)
        if isinstance(e, ast.Subscript):
            base = self.expr(e.value, env)
            idx = self.expr(e.slice, env)
            if is_sym(base):
                raise CannotEncode("subscript of a symbolic value")
            if isinstance(idx, SInt):
                folded = z3.simplify(idx.t)
                if z3.is_bv_value(folded):
                    return base[folded.as_signed_long()]     # the index term is a constant (concrete-input validation runs)
                key = ast.unparse(e.slice)
                if key not in self.hints:
                    raise CannotEncode("symbolic index %s without a hint" % key)
                k = self.hints[key]
                ctx.assumptions.append(idx.t == bv(k))
                if not (0 <= k < len(base)):
                    return 0  # out of the table: this arm of the enclosing conditional is infeasible under the assumption
                return base[k]
            return base[idx]
        if isinstance(e, ast.Call):
            fn = self.expr(e.func, env)
            args = [self.expr(a, env) for a in e.args]
            if e.keywords:
                raise CannotEncode("keyword arguments")
            if fn is int:
                (x,) = args
                if isinstance(x, SFloat):
                    ctx.need("int(float): finite and inside the bit-vector width", z3.And(z3.Not(z3.fpIsNaN(x.t)), z3.Not(z3.fpIsInf(x.t)), z3.fpLT(x.t, z3.FPVal(2.0 ** (W - 2), F64)), z3.fpGT(x.t, z3.FPVal(-(2.0 ** (W - 2)), F64))))
                    return SInt(z3.fpToSBV(RTZ, x.t, z3.BitVecSort(W)))
                if isinstance(x, SInt):
                    return x
                return int(x)
            if fn is min or fn is max:
                if len(args) != 2:
                    raise CannotEncode("min/max arity")
                a, b = args
                if not is_sym(a) and not is_sym(b):
                    return fn(a, b)
                # Python: min(a, b) -> b if b < a else a ; max(a, b) -> b if b > a else a
                c = compare(ctx, ast.Lt() if fn is min else ast.Gt(), b, a)
                return ite(ctx, c.t, b, a)
            if fn is round and len(args) == 1:
                (x,) = args
                if isinstance(x, SFloat):
                    # round(float) -> int, ties to even: exactly fp.to_sbv with roundNearestTiesToEven
                    ctx.need("round(float): finite and inside the bit-vector width", z3.And(z3.Not(z3.fpIsNaN(x.t)), z3.Not(z3.fpIsInf(x.t)), z3.fpLT(x.t, z3.FPVal(2.0 ** (W - 2), F64)), z3.fpGT(x.t, z3.FPVal(-(2.0 ** (W - 2)), F64))))
                    return SInt(z3.fpToSBV(RNE, x.t, z3.BitVecSort(W)))
                return x if isinstance(x, SInt) else round(x)
            if fn is abs and len(args) == 1:
                (x,) = args
                if isinstance(x, SFloat):
                    return SFloat(z3.fpAbs(x.t))
                if isinstance(x, SInt):
                    ctx.need("abs(int) does not overflow", x.t != bv(-(2 ** (W - 1))))
                    return SInt(z3.If(x.t < bv(0), -x.t, x.t))
                return abs(x)
            if getattr(fn, "__module__", "") == "math" and fn.__name__ in ("floor", "ceil", "trunc") and len(args) == 1 and isinstance(args[0], SFloat):
                x = args[0]
                mode = {"floor": z3.RTN(), "ceil": z3.RTP(), "trunc": RTZ}[fn.__name__]
                ctx.need("math.%s(float): finite and inside the bit-vector width" % fn.__name__, z3.And(z3.Not(z3.fpIsNaN(x.t)), z3.Not(z3.fpIsInf(x.t)), z3.fpLT(x.t, z3.FPVal(2.0 ** (W - 2), F64)), z3.fpGT(x.t, z3.FPVal(-(2.0 ** (W - 2)), F64))))
                return SInt(z3.fpToSBV(mode, x.t, z3.BitVecSort(W)))
            if fn is isinstance:
                if is_sym(args[0]):
                    raise CannotEncode("isinstance of a symbolic value")
                return isinstance(*args)
            if fn is float and isinstance(args[0], (SInt, SFloat)):
                return SFloat(to_float_term(ctx, args[0]))
            if any(is_sym(a) for a in args):
                raise CannotEncode("call of %r with symbolic arguments" % (getattr(fn, "__name__", fn),))
            return fn(*args)
        if isinstance(e, ast.Tuple):
            return tuple(self.expr(x, env) for x in e.elts)
        raise CannotEncode("expression %s" % type(e).__name__)


# ------------------------------------------------------------------------------------------------
# deciding queries with both solvers


def _z3_check(assertions, timeout_s):
    s = z3.SolverFor("QF_BVFP") if False else z3.Solver()
    s.set(timeout=int(timeout_s * 1000))
    s.add(assertions)
    t0 = time.time()
    r = s.check()
    dt = time.time() - t0
    model = None
    if r == z3.sat:
        m = s.model()
        model = {d.name(): m[d].as_signed_long() if z3.is_bv_value(m[d]) else str(m[d]) for d in m.decls()}
    return str(r), dt, model, s.to_smt2()


def _cvc5_check(smt2, timeout_s):
    import cvc5
    slv = cvc5.Solver()
    slv.setOption("produce-models", "true")
    slv.setOption("tlimit-per", str(int(timeout_s * 1000)))
    slv.setLogic("QF_BVFP")
    p = cvc5.InputParser(slv)
    p.setStringInput(cvc5.InputLanguage.SMT_LIB_2_6, smt2, "q")
    sm = p.getSymbolManager()
    t0 = time.time()
    res = "unknown"
    try:
        while True:
            cmd = p.nextCommand()
            if cmd.isNull():
                break
            out = str(cmd.invoke(slv, sm)).strip()
            if out in ("sat", "unsat"):
                res = out
            elif out.startswith("unknown"):
                res = "unknown"
            elif "error" in out.lower():
                res = "error"
    except Exception as e:  # noqa  (cvc5 raises on its time limit)
        res = "unknown" if "time" in str(e).lower() or "interrupt" in str(e).lower() else "error"
    return res, time.time() - t0


def decide_query(assertions, timeout_s=60, need_both=False):
    """-> dict(verdict: unsat|sat|unknown|disagree, z3, cvc5, times, model).
    cvc5 is asked first (it is usually the faster one on these FP queries); z3 is asked when cvc5
    does not answer unsat, or always when need_both (thorough tier); a sat answer always comes with
    z3's model, which the caller replays on the real function."""
    s = z3.Solver()
    s.add(assertions)
    smt2 = s.to_smt2()
    rc, tc = _cvc5_check(smt2, timeout_s)
    rz, tz, model = "skipped", 0.0, None
    if rc != "unsat" or need_both:
        rz, tz, model, _ = _z3_check(assertions, timeout_s)
    verdict = "unknown"
    if {rz, rc} >= {"sat", "unsat"}:
        verdict = "disagree"
    elif rz == "sat":
        verdict = "sat"
    elif rc == "sat":
        verdict = "unknown"  # cvc5 says sat but z3 gave no model to replay: inconclusive
    elif rz == "unsat" or rc == "unsat":
        verdict = "unsat"
        if need_both and not (rz == "unsat" and rc == "unsat"):
            verdict = "unknown"
    return {"verdict": verdict, "z3": rz, "cvc5": rc, "z3_s": round(tz, 2), "cvc5_s": round(tc, 2), "model": model, "smt2": smt2}


# ------------------------------------------------------------------------------------------------
# worker entry: python -m vf.fpengine <job.json>   (one obligation = a small family of queries)


def _sym_int(name, lo, hi, extra):
    v = z3.BitVec(name, W)
    extra += [v >= bv(lo), v <= bv(hi)]
    return SInt(v)


def job_pattern_value(job):
    """Controller.pattern_value for one concrete (kind, min, max): 4 queries + side obligations"""
    import rv.api  # noqa
    from rv.controller import CompactRange, Controller, Range
    mn, mx, kind = job["min"], job["max"], job["kind"]
    t = (CompactRange if kind == "compact" else Range)(mn, mx)
    ctl = Controller(t, mn)
    ctl.name = "x"
    out = []

    def run(vname, extra):
        ctx = Ctx()
        v = _sym_int(vname, mn, mx, extra)
        it = Interp(ctx, Controller.pattern_value)
        res = it.run({"self": ctl, "instance": None, "value": v})
        return ctx, v, res

    # validation of the translator: concrete vectors through the real function and the term
    import random
    rnd = random.Random(job.get("seed", 0))
    vec = sorted({mn, mx, mn + 1 if mn < mx else mn, mx - 1 if mn < mx else mx, (mn + mx) // 2} | {rnd.randint(mn, mx) for _ in range(40)})
    for c in vec:
        ctx = Ctx()
        res = Interp(ctx, Controller.pattern_value).run({"self": ctl, "instance": None, "value": SInt(bv(c))})
        got = z3.simplify(to_int_term(res)).as_signed_long() if is_sym(res) else int(res)
        want = ctl.pattern_value(None, c)
        if got != want:
            return {"state": "TRANSLATOR_MISMATCH", "message": "pattern_value(%d) real=%r encoded=%r" % (c, want, got), "queries": 0}
    queries = []
    extra = []
    ctx, v, res = run("v", extra)
    r = to_int_term(res)
    pre = extra + ctx.assumptions
    for desc, cond in ctx.obligations:
        queries.append(("side: " + desc, pre + [z3.Not(cond)], None))
    if kind == "compact":
        queries.append(("compact kind: pattern value == v - min", pre + [r != v.t - bv(mn)], ("v",)))
    else:
        queries.append(("pv(min) == 0", pre + [v.t == bv(mn), r != bv(0)], ("v",)))
        queries.append(("pv(max) == 0x8000", pre + [v.t == bv(mx), r != bv(0x8000)], ("v",)))
        queries.append(("0 <= pv(v) <= 0x8000", pre + [z3.Or(r < bv(0), r > bv(0x8000))], ("v",)))
    # monotone: adjacent form pv(v) <= pv(v + 1) for every v in [min, max - 1]; global monotonicity
    # follows by chaining (one-line induction, stated in the evidence)
    extra2 = []
    ctx2, v2, res2 = run("v2", extra2)
    r2 = to_int_term(res2)
    queries.append(("monotone (adjacent): pv(v) <= pv(v + 1)", pre + extra2 + ctx2.assumptions + [v2.t == v.t + bv(1), r > r2], ("v", "v2")))
    return run_queries(job, queries, lambda m: _replay_pv(ctl, m))


def _replay_pv(ctl, model):
    """is the solver's model a real violation on the real function?"""
    v = model.get("v")
    if v is None:
        return False, "no model value"
    a = ctl.pattern_value(None, v)
    if "v2" in model:
        b = ctl.pattern_value(None, model["v2"])
        return (v <= model["v2"] and a > b), "pv(%d)=%d pv(%d)=%d" % (v, a, model["v2"], b)
    t = ctl.value_type
    bad = (v == t.min and a != 0) or (v == t.max and a != 0x8000) or not (0 <= a <= 0x8000)
    if type(t).__name__ == "CompactRange":
        bad = a != v - t.min
    return bad, "pv(%d)=%d" % (v, a)


def run_queries(job, queries, replay):
    tmo = job.get("timeout", 60)
    need_both = job.get("need_both", False)
    res = {"state": "CONFIRMED", "message": "", "queries": 0, "details": [], "solver_s": 0.0}
    for desc, assertions, _vars in queries:
        d = decide_query(assertions, tmo, need_both)
        res["queries"] += 1
        res["solver_s"] += d["z3_s"] + d["cvc5_s"]
        res["details"].append({"query": desc, "verdict": d["verdict"], "z3": d["z3"], "cvc5": d["cvc5"], "z3_s": d["z3_s"], "cvc5_s": d["cvc5_s"]})
        if "sample_query" not in res:
            res["sample_query"] = "; " + desc + "\n" + d["smt2"][:3000]
        if d["verdict"] == "unsat":
            continue
        if d["verdict"] == "sat":
            if "side:" in desc:
                res.update(state="CANNOT_ENCODE", message="side obligation can fail (%s), model %s" % (desc, d["model"]))
                return res
            ok, what = replay(d["model"])
            if ok:
                res.update(state="POST_FAIL", message="%s violated: %s" % (desc, what), model=d["model"])
            elif job["kind_of_job"].endswith("_staged"):
                # a stage-level model over an over-approximated interval that no real input reaches: undecided
                res.update(state="UNKNOWN", message="%s: stage-level model %s is not reachable from any real input (%s)" % (desc, d["model"], what))
            else:
                res.update(state="NOT_REPRODUCED", message="%s: solver model %s does not violate the real function (%s)" % (desc, d["model"], what))
            return res
        res.update(state="DISAGREE" if d["verdict"] == "disagree" else "UNKNOWN", message="%s: z3=%s cvc5=%s" % (desc, d["z3"], d["cvc5"]))
        return res
    return res


def job_convert_value(job):
    """multictl.convert_value for one concrete parameter tuple; `stage`:
       post  -> gain=256, curve=None, input u in 0..32768 (the stage after the curve)
       curve -> identity post stage, given gain and curve, input V with bucket(V) == k (hint)"""
    import rv.api  # noqa
    from rv.modules.multictl import convert_value
    p = job["params"]  # gain, qsteps, smin, smax, dmin, dmax, vmax
    curve = job.get("curve")
    k = job.get("bucket")
    hints = {}
    if k is not None:
        hints = {"bucket": k, "bucket + 1": k + 1}
    lo, hi = job.get("in_lo", 0), job.get("in_hi", 32768)

    def run(vname, extra, hints_=None):
        ctx = Ctx()
        v = _sym_int(vname, lo, hi, extra)
        it = Interp(ctx, convert_value, hints=hints if hints_ is None else hints_)
        res = it.run({"gain": p[0], "qsteps": p[1], "smin": p[2], "smax": p[3], "dmin": p[4], "dmax": p[5], "vmax": p[6], "value": v, "curve": curve})
        return ctx, v, res

    # translator validation on concrete inputs: the interpreter runs the function's AST with a concrete input (no hint is
    # needed then: every index is concrete) and must agree with the real function
    import random
    rnd = random.Random(job.get("seed", 0))
    cand = sorted({lo, hi, (lo + hi) // 2} | {rnd.randint(lo, hi) for _ in range(30)})
    if k is not None and p[0]:
        around = (128 * k * 256) // p[0]
        cand = sorted(set(cand) | {min(hi, max(lo, around + d)) for d in (-70, -1, 0, 1, 30, 64, 65, 100, 127, 128)})
    checked = 0
    for c in cand:
        ctx = Ctx()
        res = Interp(ctx, convert_value, hints={}).run({"gain": p[0], "qsteps": p[1], "smin": p[2], "smax": p[3], "dmin": p[4], "dmax": p[5], "vmax": p[6], "value": SInt(bv(c)), "curve": curve})
        got = z3.simplify(to_int_term(res)).as_signed_long() if is_sym(res) else int(res)
        want = convert_value(p[0], p[1], p[2], p[3], p[4], p[5], p[6], c, curve)
        checked += 1
        if got != want:
            return {"state": "TRANSLATOR_MISMATCH", "message": "convert_value(%r, value=%d) real=%r encoded=%r" % (p, c, want, got), "queries": 0}
    queries = []
    extra = []
    ctx, v, res = run("v", extra)
    r = to_int_term(res)
    pre = extra + ctx.assumptions
    for desc, cond in ctx.obligations:
        queries.append(("side: " + desc, pre + [z3.Not(cond)], None))
    rlo, rhi = job["out_lo"], job["out_hi"]
    queries.append(("result within [%d, %d]" % (rlo, rhi), pre + [z3.Or(r < bv(rlo), r > bv(rhi))], ("v",)))
    extra2 = []
    ctx2, v2, res2 = run("v2", extra2)
    r2 = to_int_term(res2)
    if job["direction"] >= 0:
        queries.append(("monotone non-decreasing (adjacent: f(v) <= f(v + 1))", pre + extra2 + ctx2.assumptions + [v2.t == v.t + bv(1), r > r2], ("v", "v2")))
    else:
        queries.append(("monotone non-increasing (adjacent: f(v) >= f(v + 1))", pre + extra2 + ctx2.assumptions + [v2.t == v.t + bv(1), r < r2], ("v", "v2")))
    if k is not None and k < 256:
        # across the bucket boundary: v in bucket k, v + 1 in bucket k + 1
        extra3 = []
        ctx3, v3, res3 = run("v2", extra3, {"bucket": k + 1, "bucket + 1": k + 2})
        r3 = to_int_term(res3)
        queries.append(("monotone across the boundary bucket %d -> %d" % (k, k + 1), pre + extra3 + ctx3.assumptions + [v3.t == v.t + bv(1), r > r3], ("v", "v2")))

    def replay(m):
        a = convert_value(p[0], p[1], p[2], p[3], p[4], p[5], p[6], m["v"], curve)
        if "v2" in m:
            b = convert_value(p[0], p[1], p[2], p[3], p[4], p[5], p[6], m["v2"], curve)
            bad = m["v"] <= m["v2"] and (a > b if job["direction"] >= 0 else a < b)
            return bad, "f(%d)=%d f(%d)=%d" % (m["v"], a, m["v2"], b)
        return not (rlo <= a <= rhi), "f(%d)=%d" % (m["v"], a)

    out = run_queries(job, queries, replay)
    out["validated_vectors"] = checked
    return out


def job_convert_value_staged(job):
    """staged decision; when it ends undecided with the int-typed cut points only, it is repeated with cut points at float-typed
    assignments that provably hold integers as well (more, smaller stages)"""
    res = _job_convert_value_staged(job, False)
    if res.get("state") == "UNKNOWN":
        res2 = _job_convert_value_staged(job, True)
        res2["queries"] = res2.get("queries", 0) + res.get("queries", 0)
        res2["solver_s"] = res2.get("solver_s", 0.0) + res.get("solver_s", 0.0)
        if res2.get("state") != "UNKNOWN":
            res2["note"] = "decided with additional cut points at integer-valued float assignments (first attempt: %s)" % res.get("message", "")[:200]
        if res2.get("state") in ("CONFIRMED", "POST_FAIL"):
            return res2
    return res


def _job_convert_value_staged(job, float_cuts):
    """convert_value for one concrete tuple decided stage by stage.  The function is a chain
    value_0 -> value_1 -> ... -> result in which every int-valued assignment (with no other symbolic
    variable alive) is a cut point.  Per stage i the solver decides, for EVERY input in the interval
    I_i: (a) the stage is monotone (adjacent form), non-decreasing for inner stages and in the job's
    direction for the last one, (b) for the last stage the result lies in [out_lo, out_hi].  I_0 is the
    input range; I_{i+1} = [stage_i(min I_i), stage_i(max I_i)] is obtained by evaluating the SAME
    interpreter concretely at the end points -- valid because stage i was just proved monotone.
    Monotone o monotone is monotone and every I_i contains all reachable stage values, so the
    composition is monotone and in range: that step is arithmetic on intervals, not a solver result."""
    import rv.api  # noqa
    from rv.modules.multictl import convert_value
    p = job["params"]
    lo, hi = job.get("in_lo", 0), job.get("in_hi", 32768)
    base_env = {"gain": p[0], "qsteps": p[1], "smin": p[2], "smax": p[3], "dmin": p[4], "dmax": p[5], "vmax": p[6], "curve": None}

    # concrete passes at both ends of the input range: cut values there
    def concrete_pass(c):
        cuts = []

        def hook(name, lineno, v):
            cv = z3.simplify(v.t).as_signed_long()
            cuts.append((name, lineno, cv))
            return cv
        ctx = Ctx()
        res = Interp(ctx, convert_value, cut=hook, float_cuts=float_cuts).run(dict(base_env, value=SInt(bv(c))))
        out = z3.simplify(to_int_term(res)).as_signed_long() if is_sym(res) else int(res)
        return cuts, out
    # translator validation on concrete vectors
    import random
    rnd = random.Random(job.get("seed", 0))
    for c in sorted({lo, hi, (lo + hi) // 2} | {rnd.randint(lo, hi) for _ in range(30)}):
        _, got = concrete_pass(c)
        want = convert_value(p[0], p[1], p[2], p[3], p[4], p[5], p[6], c, None)
        if got != want:
            return {"state": "TRANSLATOR_MISMATCH", "message": "convert_value(%r, value=%d) real=%r encoded=%r" % (p, c, want, got), "queries": 0}
    cuts_lo, _ = concrete_pass(lo)
    cuts_hi, _ = concrete_pass(hi)
    if [(n, l) for n, l, _ in cuts_lo] != [(n, l) for n, l, _ in cuts_hi]:
        raise CannotEncode("cut points differ between the ends of the input range")
    nst = len(cuts_lo)
    intervals = [(lo, hi)] + [(min(a[2], b[2]), max(a[2], b[2])) for a, b in zip(cuts_lo, cuts_hi)]

    def stage_terms(i, vname):
        """symbolic run that starts stage i from a fresh variable and stops at the next cut / the return"""
        extra = []
        ilo, ihi = intervals[i]
        x = _sym_int(vname, ilo, ihi, extra)
        state = {"n": 0, "out": None}

        class Stop(Exception):
            pass

        def hook(name, lineno, v):
            k = state["n"]
            state["n"] += 1
            if k < i - 1:
                # stages before i: feed the concrete lower-end value (their values are irrelevant: they are overwritten)
                return cuts_lo[k][2]
            if k == i - 1:
                return x
            state["out"] = v
            raise Stop()
        ctx = Ctx()
        try:
            res = Interp(ctx, convert_value, cut=hook, float_cuts=float_cuts).run(dict(base_env, value=(x if i == 0 else SInt(bv(lo)))))
            state["out"] = res if is_sym(res) else SInt(bv(int(res)))
            final = True
        except Stop:
            final = False
        return ctx, x, state["out"], extra, final

    queries = []
    for i in range(nst + 1):
        ctx, x, out, extra, final = stage_terms(i, "v")
        r = to_int_term(out)
        pre = extra + ctx.assumptions
        for desc, cond in ctx.obligations:
            queries.append(("stage %d side: %s" % (i, desc), pre + [z3.Not(cond)], None))
        ctx2, x2, out2, extra2, _ = stage_terms(i, "v2")
        r2 = to_int_term(out2)
        direction = job["direction"] if final else 1
        if direction >= 0:
            queries.append(("stage %d monotone non-decreasing (adjacent) on %r" % (i, intervals[i]), pre + extra2 + ctx2.assumptions + [x2.t == x.t + bv(1), r > r2], ("v", "v2")))
        else:
            queries.append(("stage %d monotone non-increasing (adjacent) on %r" % (i, intervals[i]), pre + extra2 + ctx2.assumptions + [x2.t == x.t + bv(1), r < r2], ("v", "v2")))
        if final:
            queries.append(("last stage: result within [%d, %d] for every stage input in %r" % (job["out_lo"], job["out_hi"], intervals[i]), pre + [z3.Or(r < bv(job["out_lo"]), r > bv(job["out_hi"]))], ("v",)))

    def replay(m):
        # a stage-level model is not an input of the real function: search the real function around it
        # (inputs are 0..32768: the whole domain is cheap to scan concretely for the replay)
        prev = None
        for c in range(lo, hi + 1):
            a = convert_value(p[0], p[1], p[2], p[3], p[4], p[5], p[6], c, None)
            if not (job["out_lo"] <= a <= job["out_hi"]):
                return True, "f(%d)=%d outside [%d, %d]" % (c, a, job["out_lo"], job["out_hi"])
            if prev is not None and ((job["direction"] >= 0 and prev > a) or (job["direction"] < 0 and prev < a)):
                return True, "f(%d)=%d f(%d)=%d" % (c - 1, prev, c, a)
            prev = a
        return False, "no input of the real function shows it (stage intervals over-approximate)"

    out = run_queries(job, queries, replay)
    out["stages"] = nst + 1
    out["intervals"] = intervals
    return out


JOBS = {"pattern_value": job_pattern_value, "convert_value": job_convert_value, "convert_value_staged": job_convert_value_staged}


def main():
    job = json.load(open(sys.argv[1]))
    t0 = time.process_time()
    try:
        res = None
        for w in (job.get("width", 40), 64):
            set_width(w)
            try:
                res = JOBS[job["kind_of_job"]](job)
            except WidthTooSmall:
                continue
            if res.get("state") == "CANNOT_ENCODE" and "side obligation" in res.get("message", "") and w < 64:
                continue   # a no-overflow side obligation failed at this width: retry wider
            res["bv_width"] = w
            break
        if res is None:
            raise CannotEncode("no bit-vector width works")
    except CannotEncode as e:
        res = {"state": "CANNOT_ENCODE", "message": str(e), "queries": 0}
    except Exception as e:  # noqa
        import traceback
        res = {"state": "ERROR", "message": "%s: %s" % (type(e).__name__, e), "traceback": traceback.format_exc()[-2000:], "queries": 0}
    res["cpu_s"] = round(time.process_time() - t0, 2)
    print("\n@@RESULT@@" + json.dumps(res, default=str))


# ------------------------------------------------------------------------------------------------
# driver side


def decide(pid, ob, wdir, known):
    from vf import driver
    path = os.path.join(wdir, driver.safe(ob.oid) + ".json")
    with open(path, "w") as f:
        json.dump(ob.payload, f)
    t0 = time.time()
    hard = ob.timeout * 8 + 120
    try:
        p = subprocess.run([driver.PY, "-m", "vf.fpengine", path], capture_output=True, text=True, timeout=hard, cwd=driver.ROOT, env={**os.environ, "PYTHONPATH": driver.ROOT})
        k = p.stdout.rfind("@@RESULT@@")
        res = json.loads(p.stdout[k + 10:]) if k >= 0 else {"state": "ERROR", "message": (p.stderr or "")[-1500:], "queries": 0}
    except subprocess.TimeoutExpired:
        res = {"state": "HARD_TIMEOUT", "message": "killed after %ds" % hard, "queries": 0}
    out = {"oid": ob.oid, "group": ob.group, "desc": ob.desc, "shape": ob.shape, "symbolic": ob.symbolic, "engine": "F", "paths": 0, "queries": res.get("queries", 0),
           "cpu_s": res.get("cpu_s", 0), "known": [], "state": res["state"], "message": res.get("message", "")[:600], "sample_query": res.get("sample_query", ""),
           "solver_details": res.get("details", [])[:12], "functions": ob.payload.get("functions", [])}
    st = res["state"]
    if st == "CONFIRMED":
        out["verdict"] = "discharged"
    elif st == "POST_FAIL":
        # replay file: plain python against the real function
        model = res.get("model", {})
        src = ob.payload["replay_src"]
        rp = driver.write_replay(pid, ob, src, (), {"model": model})
        fails, rc, tail = driver.run_replay(rp)
        if not fails:
            out["verdict"] = "harness_error"
            out["message"] += " | replay did not reproduce: " + tail[-300:]
        else:
            hit = driver.match_known(pid, ob, (), {"model": model}, known)
            if hit is None:
                out["verdict"] = "violation"
                out["replay"] = rp
                out["counterexample"] = json.dumps(model)
            else:
                os.remove(rp)
                out["verdict"] = "known"
                out["known"].append({"finding": hit["name"], "counterexample": json.dumps(model)})
    elif st in ("TRANSLATOR_MISMATCH", "NOT_REPRODUCED", "DISAGREE", "ERROR"):
        out["verdict"] = "harness_error"
        out["message"] += " " + res.get("traceback", "")[-600:]
    else:
        out["verdict"] = "inconclusive"
    return out


PV_REPLAY = '''from vf.prelude import *
from rv.controller import Controller, Range, CompactRange


def h(model=None):
    t = {cls}({mn}, {mx})
    c = Controller(t, {mn})
    v = model["v"]
    a = c.pattern_value(None, v)
    print("pattern_value(%d) = %d for range [{mn}, {mx}]" % (v, a))
    if "v2" in model:
        b = c.pattern_value(None, model["v2"])
        print("pattern_value(%d) = %d" % (model["v2"], b))
        return not (v <= model["v2"] and a > b)
    if {compact}:
        return a == v - {mn}
    return not ((v == {mn} and a != 0) or (v == {mx} and a != 0x8000) or not (0 <= a <= 0x8000))
'''


def pattern_value_obligations(tier, rnd):
    """one obligation per distinct (kind, min, max) found in the live metadata (every unit variant)"""
    import rv.api  # noqa
    from rv.controller import CompactRange, DependentRange, Range
    from rv.modules import MODULE_CLASSES
    from vf.harness import Ob
    pairs = {}
    for mt, cls in MODULE_CLASSES.items():
        for n, c in cls.controllers.items():
            t = c.value_type
            ts = list(t.range_map.values()) + [t.default] if isinstance(t, DependentRange) else [t]
            for r in ts:
                if isinstance(r, Range) and r.max > r.min:
                    kind = "compact" if isinstance(r, CompactRange) else "range"
                    pairs.setdefault((kind, r.min, r.max), []).append(f"{mt}.{n}")
    obs = []
    for (kind, mn, mx), users in sorted(pairs.items()):
        payload = {"kind_of_job": "pattern_value", "kind": kind, "min": mn, "max": mx, "timeout": 150 if tier == "quick" else 400, "need_both": tier == "thorough",
                   "functions": ["rv/controller.py:Controller.pattern_value"],
                   "replay_src": PV_REPLAY.format(cls="CompactRange" if kind == "compact" else "Range", mn=mn, mx=mx, compact=(kind == "compact"))}
        obs.append(Ob(f"pv.{kind}.{mn}_{mx}".replace("-", "m"), "", f"pattern-column encoding for {kind} [{mn}, {mx}] (used by {len(users)} controllers, e.g. {users[0]}): " +
                      ("v - min" if kind == "compact" else "min -> 0, max -> 0x8000, inside [0, 0x8000], monotone") + "; IEEE-754 double semantics",
                      group="pattern_value", shape=f"{kind} range [{mn}, {mx}]", symbolic=f"v over {mn}..{mx} (and a second value for monotonicity)", timeout=payload["timeout"], engine="F", payload=payload))
    return obs


if __name__ == "__main__":
    main()
