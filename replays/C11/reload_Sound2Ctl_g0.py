#!/venv/bin/python
# Replay of a solver counterexample against the real library: no CrossHair, no stubs, real io.BytesIO.
# property C11  obligation reload.Sound2Ctl.g0
# Sound2Ctl: options ['record_values', 'send_only_changed_values'] changed on a module that was loaded from a file (record with other bits set): save/load and clone() show the new values, the others keep theirs
# exit 1 = the property fails for this input on the current /repo tree; exit 0 = it holds.
import os, sys
os.environ["VF_REPLAY"] = "1"
sys.path.insert(0, "/verif")
ARGS = (False, False)
KWARGS = {}
HARNESS = 'from vf.prelude import *\nfrom rv.modules import MODULE_CLASSES\nfrom vf import refformat as RF\n\n\ndef h(o_record_values: bool, o_send_only_changed_values: bool) -> bool:\n    """\n    post: _\n    """\n    src = MODULE_CLASSES[\'Sound2Ctl\']()\n    src.record_values = True\n    src.send_only_changed_values = False\n    mod = rt(Synth(src)).module\n    mod.record_values = o_record_values\n    mod.send_only_changed_values = o_send_only_changed_values\n    e_record_values = mod.record_values\n    e_send_only_changed_values = mod.send_only_changed_values\n    m2 = rt(Synth(mod)).module\n    m3 = mod.clone()\n    return m2.record_values == e_record_values and m2.send_only_changed_values == e_send_only_changed_values and m3.record_values == e_record_values and m3.send_only_changed_values == e_send_only_changed_values\n\n\ndef h__reach(o_record_values: bool, o_send_only_changed_values: bool) -> bool:\n    """\n    post: _\n    """\n    h(o_record_values, o_send_only_changed_values)\n    return False\n'
ns = {"__name__": "vf_replay"}
exec(compile(HARNESS, "<harness reload.Sound2Ctl.g0>", "exec"), ns)
try:
    ok = ns['h'](*ARGS, **KWARGS)
except Exception as e:
    import traceback; traceback.print_exc()
    print("replay: raised", type(e).__name__, e)
    sys.exit(1)
print("replay: h(*%r, **%r) returned %r" % (ARGS, KWARGS, ok))
sys.exit(0 if ok else 1)
